"""C48 — configuration items parse and validate values (engine E10 "xbtx").

The registry is listed from the running library (--help, --help-aliases, and <item>:help for the documented value lists).
Complete grid: every item x {name, each alias} x every value of its type's list (valid / invalid / open) x every route
(set_parse = what --cfg= calls, set_as_string, typed set_value<T>, the C API), one forked child per case on top of an
initialised Engine; + unknown names x routes; + the real command line for every item and alias and the --cfg syntaxes.
Two worlds: plain, and with a record/replay path set (which unlocks the model-check items that refuse any value
otherwise).  Oracle: Python's own parsing of the value (int(), float(), the 8 documented boolean words, identity).
"""
import os, sys, re, json, subprocess, concurrent.futures as cf, time
import common

ENGINE = "E10 xbtx"
INT_VALID = ["0", "1", "-1", "42", "2147483647", "-2147483648"]
INT_INVALID = ["", "x", "1.5", "1x", "2147483648", "-2147483649", "99999999999999999999", "1e3", "--1", "+", "0b1"]
INT_OPEN = ["010", "0x10", "+5"]                       # strtol base 0: octal / hex; explicit plus sign — no claim
DBL_VALID = ["0", "1", "-1.5", "1e-9", "2.5e3", ".5", "1e300", "123456.789"]
DBL_INVALID = ["", "x", "1,5", "1e", "1.2.3", "1e999", "--1", "1x", "-"]
DBL_OPEN = ["inf", "nan", "0x10", "1.", "+2"]
BOOL_TRUE = ["yes", "on", "true", "1", "YES", "On", "TRUE", "tRuE"]
BOOL_FALSE = ["no", "off", "false", "0", "NO", "Off", "FALSE", "fAlSe"]
BOOL_INVALID = ["", "2", "maybe", "yess", "tru", "y", "n", "-1", "01", "onn"]
STR_ARBITRARY = "zz-no-such-value"
TYPE_ERRORS = ("invalid integer", "invalid double", "not a boolean", "overflow", "underflow", "out of range")
UNKNOWN = ["no/such-item", "Network/model", "network/model/", "network_model", "networkmodel", "cfg"]
SEP = set(" \t\n,")


def run_cmd(binp, args, world):
    env = dict(os.environ)
    if world == "mc-replay":
        env["C48_MC_REPLAY"] = "1"
    r = subprocess.run([binp] + args, stdout=subprocess.PIPE, stderr=subprocess.PIPE, text=True, env=env)
    return r


def registry(binp, world):
    out = run_cmd(binp, ["--help", "list"], world)
    txt = out.stdout + out.stderr
    items, cur = {}, None
    for line in txt.split("\n"):
        m = re.match(r"^   (\S+): (.*)$", line)
        t = re.match(r"^       Type: (\w+); Current value: (.*)$", line)
        if t and cur:
            items[cur] = {"type": t.group(1), "help_value": t.group(2)}
            cur = None
        elif m and not line.startswith("    "):
            cur = m.group(1)
    out = run_cmd(binp, ["--help-aliases", "list"], world)
    aliases = {}
    for line in (out.stdout + out.stderr).split("\n"):
        m = re.match(r"^   (\S+)\s+(\S+)$", line)
        if m and m.group(2) in items:
            aliases[m.group(1)] = m.group(2)
    return items, aliases


def documented_values(binp, name, world):
    r = run_cmd(binp, ["--cfg=%s:help" % name, "list"], world)
    txt = r.stdout + r.stderr
    vals = re.findall(r"^  - '([^']*)': ", txt, re.M)
    if not vals and re.search(r"^Long description of the .* accepted by this simulator", txt, re.M):
        vals = re.findall(r"^  (\S+): ", txt, re.M)
    return vals


def run_cases(binp, cases, world, pool, nshards, K=1):
    """cases: list of (route, name, type, value, readname) -> list of result lines (without the index).
    The parent of the forked children runs with --cfg=debug/stacktrace:none (a child that ends in xbt_die otherwise spends
    a second resolving its backtrace), except for the cases about the debug/stacktrace items themselves."""
    special = [i for i, c in enumerate(cases) if c[4].startswith("debug/stacktrace") or c[0] == "get"]
    if special and len(special) < len(cases):
        rest = [i for i in range(len(cases)) if i not in set(special)]
        res = [None] * len(cases)
        for idx in (special, rest):
            for i, l in zip(idx, run_cases(binp, [cases[i] for i in idx], world, pool, nshards, K)):
                res[i] = l
        return res
    pre = [] if special else ["--cfg=debug/stacktrace:none"]
    nshards = max(1, min(nshards, len(cases) // (4 * K) + 1))
    per = (len(cases) + nshards - 1) // nshards          # contiguous chunks: consecutive cases are about different items
    chunks = [cases[i * per:(i + 1) * per] for i in range(nshards)]
    def one(chunk):
        if not chunk:
            return []
        inp = "".join("\t".join(c) + "\n" for c in chunk)
        env = dict(os.environ)
        if world == "mc-replay":
            env["C48_MC_REPLAY"] = "1"
        r = subprocess.run([binp] + pre + ["cases", str(K)], input=inp, stdout=subprocess.PIPE, stderr=subprocess.DEVNULL, text=True, env=env)
        res = {}
        for l in r.stdout.split("\n"):
            m = re.match(r"^(\d+) (.*)$", l)
            if m:
                res.setdefault(int(m.group(1)), m.group(2))
        if r.returncode != 0 or len(res) != len(chunk):
            common.log("verif: C48 harness lost cases (%d of %d, exit %s)" % (len(res), len(chunk), r.returncode))
            sys.exit(2)
        return [res[i] for i in range(len(chunk))]
    res = []
    for o in pool.map(one, chunks):
        res += o
    return res


def parsed(typ, value):
    """what the harness prints for the value Python parses out of the string"""
    if typ == "int":
        return str(int(value))
    if typ == "double":
        return float(value).hex()
    if typ == "boolean":
        return "true" if value.lower() in ("yes", "on", "true", "1") else "false"
    return "[" + value + "]"


def norm(typ, shown):
    return float.fromhex(shown).hex() if typ == "double" else shown


def norm_side(x):
    try:
        return float.fromhex(x).hex() if "0x" in x else x
    except ValueError:
        return x


def expected_side(name, typ, value, pagesize):
    if name in ("precision/timing", "precision/work-amount"):
        return float(value).hex()
    if name == "maxmin/concurrency-limit":
        return str(int(value))
    if name == "contexts/stack-size":
        return str((int(value) * 1024) % 2**32)
    if name == "contexts/guard-size":
        return "%d/%d" % ((int(value) * pagesize) % 2**32, pagesize)
    if name == "contexts/nthreads":
        return str(int(value)) if int(value) > 0 else None       # <= 0 means "as many as cores"
    if name == "contexts/synchro":
        return {"posix": "0", "futex": "1", "busy_wait": "2"}.get(value)
    return None


def build_cases(items, aliases, defaults, docs, quick=False):
    """-> list of dict(route,name,type,value,readname,cls). quick: every item, alias and route, shorter value lists."""
    C = []
    cut = (lambda l, n: l[:n]) if quick else (lambda l, n: l)
    names = {n: [n] + [a for a, r in aliases.items() if r == n] for n in items}
    for n, it in sorted(items.items()):
        t = it["type"]
        d = defaults[n]
        if t == "int":
            dv = d
            valid, invalid, opn = cut(INT_VALID, 3) + [dv], cut(INT_INVALID, 4), cut(INT_OPEN, 1)
        elif t == "double":
            dv = repr(float.fromhex(d))
            valid, invalid, opn = cut(DBL_VALID, 4) + [dv], cut(DBL_INVALID, 4), cut(DBL_OPEN, 1)
        elif t == "boolean":
            dv = d
            valid, invalid, opn = cut(BOOL_TRUE, 2) + cut(BOOL_FALSE, 2) + (["tRuE"] if quick else []), cut(BOOL_INVALID, 3), []
        else:
            dv = d[1:-1]
            valid, invalid, opn = [dv] + [v for v in docs.get(n, []) if v != dv], [], [STR_ARBITRARY]
        seen = set()
        for nm in names[n]:
            for cls, vals in (("valid", valid), ("invalid", invalid), ("open", opn)):
                for v in vals:
                    if (nm, cls, v) in seen:
                        continue
                    seen.add((nm, cls, v))
                    kind = cls
                    if t == "string" and cls == "valid":
                        kind = "default" if v == dv else "documented"
                    if t != "string" and cls == "valid" and v == dv:
                        kind = "default"
                    routes = ["string"]
                    if v and not (set(v) & SEP) and ":" not in nm:
                        routes.append("parse")
                    if cls == "valid" and (t == "string" or v == dv or vals.index(v) < (1 if quick else 3)):
                        routes += ["typed", "capi"]        # the typed setters take a value, not a text: a few suffice
                    elif t == "boolean":
                        routes.append("capi")              # sg_cfg_set_boolean takes the word and parses it itself
                    for r in routes:
                        C.append(dict(route=r, name=nm, type=t, value=v, readname=n, cls=kind))
    return C


def judge(c, line, locked, pagesize):
    """-> (outcome, None | (key, what)); outcome in accepted / rejected-type / rejected-validation / rejected-name"""
    t, v, cls, n = c["type"], c["value"], c["cls"], c["readname"]
    via = "" if c["name"] == n else " via alias %s" % c["name"]
    tag = "C48 %s%s value='%s'" % (n, via, v)
    if line.startswith("ok "):
        f = line[3:].split("\t")
        shown = f[0]
        kv = dict(x.split("=", 1) for x in f[1:])
        if cls == "invalid":
            return "accepted", (tag + " unparsable value accepted", "stored %s" % shown)
        if cls == "open" and t != "string":
            return "accepted", None
        want = parsed(t, v)
        if norm(t, shown) != want:
            return "accepted", (tag + " stored value differs from the parsed value", "stored %s, parsed %s" % (shown, want))
        if kv.get("capi", "-") != "-" and norm(t, kv["capi"]) != want:
            return "accepted", (tag + " sg_cfg_get_* differs", "C getter gives %s, parsed %s" % (kv["capi"], want))
        if kv.get("default") != "0":
            return "accepted", (tag + " still flagged as default after being set", line)
        es = expected_side(n, t, v, pagesize)
        if es is not None and kv.get("side") not in (None, "-") and norm_side(kv["side"]) != norm_side(es):
            return "accepted", (tag + " callback side effect missing", "bound variable shows %s, expected %s" % (kv["side"], es))
        return "accepted", None
    if line.startswith("exc out_of_range"):
        return "rejected-name", (tag + " known name reported as a bad config key", line[:200])
    typeerr = line.startswith("exc range_error") and any(e in line.split("\t")[0] for e in TYPE_ERRORS)
    if line.startswith("exc range_error"):
        kv = dict(x.split("=", 1) for x in line.split("\t")[1:])
        if typeerr and kv.get("before") != kv.get("after"):
            return "rejected-type", (tag + " rejected value modified the item", line[:200])
    if typeerr:
        if cls in ("valid", "default", "documented"):
            return "rejected-type", (tag + " well-formed value rejected as unparsable", line.split("\t")[0])
        return "rejected-type", None
    # rejected by the item's validation (range_error "invalid value.", xbt_die -> SIGABRT, exit())
    if cls == "documented" and n not in locked:
        return "rejected-validation", (tag + " documented value rejected", line[:160])
    return "rejected-validation", None


def run(ctx):
    budget = os.environ.get("VERIF_BUDGET_S")
    ctx.deadline = common.Deadline(float(budget) if budget else (150 if ctx.quick else 1200))
    binp = common.build_harness("c48", ["xbtx/c48.cpp"])
    pool = cf.ThreadPoolExecutor(4 * common.NCPU)        # children spend their time waiting for fork/exit round trips
    NSH = 4 * common.NCPU
    pagesize = os.sysconf("SC_PAGE_SIZE")
    cov = {"worlds": {}, "bounds_not_started": []}
    viol, evaluations, nontrivial = {}, 0, set()
    samples = []
    t_world = 60.0
    for world in ("plain", "mc-replay"):
        if world != "plain" and ctx.deadline.left() < t_world * 0.6:
            cov["bounds_not_started"].append("world " + world)
            continue
        t0 = time.time()
        items, aliases = registry(binp, world)
        if len(items) < 50:
            common.log("verif: C48 could not list the registry (%d items)" % len(items))
            sys.exit(2)
        # exact defaults
        get = [("get", n, items[n]["type"], "", n) for n in sorted(items)]
        defaults = {}
        for c, l in zip(get, run_cases(binp, get, world, pool, NSH)):
            m = re.match(r"^ok (.*?)\tdefault=(\d)", l)
            if not m or m.group(2) != "1":
                viol.setdefault("C48 %s cannot be read / not default at start (%s)" % (c[1], world), []).append(
                    (dict(route="get", name=c[1], type=c[2], value="", readname=c[1], cls="default"), l[:160], world))
                defaults[c[1]] = "0" if c[2] != "string" else "[]"
            else:
                defaults[c[1]] = m.group(1)
        # documented value lists of the string items
        snames = [n for n in sorted(items) if items[n]["type"] == "string"]
        docs = dict(zip(snames, pool.map(lambda n: documented_values(binp, n, world), snames)))
        docs = {n: v for n, v in docs.items() if v}
        cases = build_cases(items, aliases, defaults, docs, ctx.quick)
        if world != "plain":       # second world: only the items that refused everything in the first one
            cases = [c for c in cases if c["readname"] in cov["worlds"]["plain"]["locked_items"]]
        # round-robin over the items, so that a forked child can run a batch of cases about different items; the
        # documented values (whose rejection would be a violation) each get a child of their own
        rank = {}
        for c in cases:
            rank[c["readname"]] = rank.get(c["readname"], -1) + 1
            c["_rank"] = rank[c["readname"]]
        cases.sort(key=lambda c: (c["cls"] == "documented", c["_rank"], c["readname"]))
        tup = lambda c: (c["route"], c["name"], c["type"], c["value"], c["readname"])
        batchable = [c for c in cases if c["cls"] != "documented"]
        solo = [c for c in cases if c["cls"] == "documented"]
        lines = run_cases(binp, [tup(c) for c in batchable], world, pool, NSH, K=24) + \
            run_cases(binp, [tup(c) for c in solo], world, pool, NSH, K=1)
        accepted_by_item = {}
        for c, l in zip(cases, lines):
            if l.startswith("ok "):
                accepted_by_item[c["readname"]] = accepted_by_item.get(c["readname"], 0) + 1
        locked = sorted(n for n in items if not accepted_by_item.get(n)) if world == "plain" else \
            sorted(set(c["readname"] for c in cases) - set(accepted_by_item))
        outcomes = {}
        for c, l in zip(cases, lines):
            o, bad = judge(c, l, set(locked), pagesize)
            outcomes[(c["cls"], o)] = outcomes.get((c["cls"], o), 0) + 1
            if bad:
                viol.setdefault(bad[0] + ("" if world == "plain" else " (%s)" % world), []).append((c, bad[1], world))
            if (c["cls"] == "invalid" and o == "rejected-type") or (o == "accepted" and c["cls"] != "default") or \
                    (o == "rejected-validation" and c["cls"] in ("open", "valid", "documented")):
                nontrivial.add((world, c["readname"], c["name"], c["route"], c["value"]))
            if len(samples) < 10 and c["route"] == "parse" and c["cls"] != "default" and len(nontrivial) % 37 == 5:
                if not any(s["item"] == c["readname"] for s in samples):
                    samples.append({"item": c["readname"], "name": c["name"], "route": c["route"], "type": c["type"],
                                    "value": c["value"], "class": c["cls"], "observed": l[:120]})
        evaluations += len(cases) + len(get)
        # unknown names
        unk = []
        for u in UNKNOWN + [a + "x" for a in list(aliases)[:2]]:
            for r, t in (("parse", "int"), ("string", "int"), ("typed", "int"), ("typed", "string"), ("capi", "double"),
                         ("capi", "boolean"), ("get", "int")):
                unk.append((r, u, t, "1", u))
        unk += [("parse", "", "int", "1", "x"), ("string", "", "int", "1", "x"), ("string", "network/model ", "string", "CM02", "network/model")]
        for c, l in zip(unk, run_cases(binp, unk, world, pool, NSH)):
            evaluations += 1
            okline = l.startswith("exc out_of_range")
            if c[0] == "get":          # reading an unknown name must throw as well: the harness reports before='?' then ok/exc
                okline = okline or "before=?" in l
            if not okline:
                viol.setdefault("C48 unknown name '%s' route=%s(%s) not rejected as a bad config key" % (c[1], c[0], c[2]), []).append(
                    (dict(route=c[0], name=c[1], type=c[2], value=c[3], readname=c[4], cls="unknown"), l[:160], world))
            else:
                nontrivial.add((world, "unknown", c[1], c[0], c[2]))
        cov["worlds"][world] = {
            "items": len(items), "aliases": aliases, "by_type": {t: sum(1 for i in items.values() if i["type"] == t) for t in
                                                                 ("int", "double", "boolean", "string")},
            "items_with_documented_value_list": {n: len(v) for n, v in docs.items()},
            "cases": len(cases), "unknown_name_cases": len(unk),
            "outcomes(class,outcome)": {"%s/%s" % k: v for k, v in sorted(outcomes.items())},
            "locked_items": locked, "wall_s": round(time.time() - t0, 1)}
        t_world = time.time() - t0
        common.log("C48 world %s: %d items, %d cases, %.1fs" % (world, len(items), len(cases), t_world))
        if world == "plain":
            plain = (items, aliases, defaults, docs, cases, lines)

    # the real command line: every item and alias once, with a value the parser route accepted; + --cfg syntaxes
    items, aliases, defaults, docs, cases, lines = plain
    chosen = {}
    for c, l in zip(cases, lines):
        if c["route"] == "parse" and l.startswith("ok ") and c["cls"] in ("valid", "documented"):
            chosen.setdefault(c["name"], c)
    def cmdline(c):
        r = run_cmd(binp, ["--cfg=%s:%s" % (c["name"], c["value"]), "show", c["type"], c["readname"]], "plain")
        return r.stdout.split("\n")[0] if r.returncode == 0 else "died rc=%s" % r.returncode
    cl = list(chosen.values())
    for c, l in zip(cl, pool.map(cmdline, cl)):
        evaluations += 1
        want = parsed(c["type"], c["value"])
        got = l[3:].split("\t")[0] if l.startswith("ok ") else None
        if got is None or norm(c["type"], got) != want:
            viol.setdefault("C48 %s real command line --cfg=%s:%s stores something else" % (c["readname"], c["name"], c["value"]),
                            []).append((dict(c, route="cmdline"), "shows %s, parsed %s" % (l[:100], want), "plain"))
        else:
            nontrivial.add(("plain", c["readname"], c["name"], "cmdline", c["value"]))
    syn = [(["--cfg=bmf/precision:1e-3,network/model:CM02"], ["0x1.0624dd2f1a9fcp-10", "[CM02]", None]),
           (["--cfg=bmf/precision:1e-3 network/model:CM02"], ["0x1.0624dd2f1a9fcp-10", "[CM02]", None]),
           (["--cfg=bmf/precision:1e-3", "--cfg=network/model:CM02"], ["0x1.0624dd2f1a9fcp-10", "[CM02]", None]),
           (["--cfg=bmf/precision:1e-3", "--cfg=bmf/precision:1e-4"], ["0x1.a36e2eb1c432dp-14", "[LV08]", None]),
           (["--cfg=,, bmf/precision:1e-3 ,"], ["0x1.0624dd2f1a9fcp-10", "[LV08]", None])]
    for args, want in syn:
        r = run_cmd(binp, args + ["show", "double", "bmf/precision", "string", "network/model", "--", "--cfg=bmf/max-iterations:5"], "plain")
        evaluations += 1
        got = [l[3:].split("\t")[0] for l in r.stdout.split("\n") if l.startswith("ok ")]
        left = [l for l in r.stdout.split("\n") if l.startswith("argv-left:")]
        ok = len(got) == 2 and got[0] == want[0] and got[1] == want[1] and left and "--cfg=bmf/max-iterations:5" in left[0] \
            and not any(a in left[0] for a in args)
        if not ok:
            viol.setdefault("C48 command line %s mis-parsed" % " ".join(args), []).append(
                (dict(route="syntax", args=args), "shows %s / %s" % (got, left), "plain"))
        else:
            nontrivial.add(("plain", "syntax", " ".join(args), "cmdline", ""))
    for args in (["--cfg=network/model"], ["--cfg=no/such:1"], ["--cfg=bmf/max-iterations:x"]):
        r = run_cmd(binp, args + ["show", "string", "network/model"], "plain")
        evaluations += 1
        if r.returncode == 0 and "ok " in r.stdout:
            viol.setdefault("C48 command line %s accepted" % args[0], []).append((dict(route="syntax-bad", args=args), r.stdout[:100], "plain"))
        else:
            nontrivial.add(("plain", "syntax-bad", args[0], "cmdline", ""))
    pool.shutdown()

    # confirmation: every reported case alone, twice
    violations = []
    for key in sorted(viol, key=lambda k: (len(k), k))[:20]:
        c, what, world = viol[key][0][0], viol[key][0][1], viol[key][0][2] if len(viol[key][0]) > 2 else "plain"
        a, b = confirm(binp, c, world), confirm(binp, c, world)
        if a != b:
            common.log("verif: C48 %s does not reproduce identically: %r / %r" % (key, a, b))
            sys.exit(2)
        if c.get("route") in ("parse", "string", "typed", "capi", "get") and c.get("cls") != "unknown":
            # the case ran in a batch with cases about other items: only what it does alone counts
            rebad = judge(c, a, set(cov["worlds"].get(world, {}).get("locked_items", [])), pagesize)[1] if c["route"] != "get" else (key, a)
            if not rebad:
                cov.setdefault("not_confirmed_alone", []).append(key)
                continue
            what = rebad[1]
        routes = sorted(set(v[0].get("route", "") for v in viol[key]))
        more = " (routes: %s)" % ", ".join(routes)
        violations.append(common.Violation(key, "%s%s [alone: %s]" % (what, more, a[:120]), dict(c, world=world)))
    cov.update({
        "evaluations": evaluations, "distinct_nontrivial": len(nontrivial),
        "rule": "grid: every registered item x (name + aliases) x value list of its type (valid incl. its default and its "
                "documented values / invalid / open) x routes (set_parse, set_as_string; typed set_value<T> and the C API "
                "for valid values), one forked child each; unknown names x routes; the real command line once per item and "
                "alias + 8 --cfg syntaxes. Non-trivial = distinct cases where a decision was really taken: an unparsable "
                "value rejected by the type parser, a non-default value accepted and stored, or a value refused by the "
                "item's own validation callback",
        "samples": samples, "exhaustive": not cov["bounds_not_started"]})
    if len(nontrivial) < 2:
        common.log("verif: C48 vacuous run")
        sys.exit(2)
    common.finish(ctx, "exploration", cov, [
        "the registry is what --help / --help-aliases / <item>:help print in a plain s4u program (plugins and models not "
        "loaded are not listed)",
        "oracle for 'parsed value': Python int() / float() / the 8 boolean words / identity; octal-hex-plus-sign integers, "
        "inf, nan, hex floats and '1.' are open (accepted or rejected, not judged)",
        "a well-formed value may be refused by the item's validation callback (that is the callback running): only a "
        "type-parser message on a well-formed value, a refused documented value or a refused default are violations",
        "items that refuse every value in the plain world (model-check/*, smpi/buffering: only allowed within the "
        "model-checker) are exercised in a second world with a record/replay path set",
        "no claim on whether a value refused by a validation callback leaves the previous value in place",
    ], violations, ENGINE)


def confirm(binp, c, world):
    if c.get("route") in ("syntax", "syntax-bad"):
        r = run_cmd(binp, c["args"] + ["show", "double", "bmf/precision", "string", "network/model"], world)
        return r.stdout.strip().replace("\n", " | ")[:300] + " rc=%s" % r.returncode
    if c.get("route") == "cmdline":
        r = run_cmd(binp, ["--cfg=%s:%s" % (c["name"], c["value"]), "show", c["type"], c["readname"]], world)
        return r.stdout.split("\n")[0] + " rc=%s" % r.returncode
    with cf.ThreadPoolExecutor(1) as p:
        return run_cases(binp, [(c["route"], c["name"], c["type"], c["value"], c["readname"])], world, p, 1)[0]


def replay(ctx, rf):
    c = rf["case"]
    binp = common.build_harness("c48", ["xbtx/c48.cpp"])
    print("replaying %s" % rf["key"])
    r = confirm(binp, c, c.get("world", "plain"))
    print("observed: %s" % r)
    if c.get("route") in ("parse", "string", "typed", "capi") and c.get("cls") != "unknown":
        o, bad = judge(c, r, set(), os.sysconf("SC_PAGE_SIZE"))
        print("verdict: %s" % (bad[1] if bad else "ok (%s)" % o))
        return 1 if bad else 0
    if c.get("cls") == "unknown":
        ok = r.startswith("exc out_of_range") or "before=?" in r
        print("verdict: %s" % ("ok" if ok else "not rejected as a bad config key"))
        return 0 if ok else 1
    print("expected as recorded in the replay file: %s" % rf.get("what"))
    return 1
