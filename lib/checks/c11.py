"""C11 — actor lifecycle semantics (engine E4 `sim` + lib/timed_ref.py + lib/progs.py, level exploration).

Programs: odometer (canonical forms only) over A actors x <=K symbols; actor a<i> runs on its own host h<i>, starts at
date 0 with one on_exit callback.  Symbols (x = any *other* actor):
  s1 sleep 1 | s2 sleep 2 | e2 exec of 2 s | kill x | join x | jf x = join(x, 1) | susp x | res x = resume(x)
  SS suspend(self) | D daemonize | K1 set_kill_time(self, 1) | X register one more on_exit callback | KA kill_all
  C  create a child actor (own host, runs sleep 1.5, one on_exit callback)
Reboot family: a fixed victim v (auto-restart, on_exit, runs sleep 1.5; sleep 1) on host hv + controllers whose alphabet
adds OFF = turn hv off, ON = turn hv on, kill v, join v, susp v, res v.
Oracle: (1) per incarnation, the on_exit callbacks it registered run exactly once each, in reverse registration order,
as the last records of its log, whatever the end reason; (2) clocks never decrease; (3) the complete observation is a
member of timed_ref.allowed(program): join returns at min(target end, deadline), kill times exact, daemons die at the
date the last non-daemon ends, a suspended actor logs nothing until resumed and its exec does not progress, auto-restart
at the reboot date.  Simultaneous events in any order.
"""
import json, sys
from fractions import Fraction as F
import common, simlib, simcheck, timed_ref, progs

GF = 2.0 ** 30
SOLO = [("s1",), ("s2",), ("e2",), ("SS",), ("D",), ("K1",), ("X",), ("KA",), ("C",)]
TARGETED = ["kill", "join", "jf", "susp", "res"]


def alpha_of(names, targeted):
    def alpha(i, A):
        out = [(n,) for n in names]
        for t in targeted:
            out += [(t, "a%d" % j) for j in range(A) if j != i]
        return out
    return alpha


FULL = alpha_of(["s1", "s2", "e2", "D", "K1", "X", "KA", "C"], TARGETED)
CORE = alpha_of(["s1", "e2", "D", "K1"], ["kill", "join", "jf", "susp", "res"])
SMALL = alpha_of(["s1"], ["kill", "join", "susp", "res"])
TINY = alpha_of(["s1"], ["kill", "join"])
CTRL = alpha_of(["s1", "OFF", "ON", "killv", "joinv", "suspv", "resv"], [])


def relevant(p):
    return any(len(op) > 1 for ops in p for op in ops)


def enum(alpha, A, K, rel=True, family="main"):
    cases = [{"family": family, "prog": [[list(op) for op in ops] for ops in p]}
             for p in progs.programs(alpha, A, K, relevance=relevant if rel else None)]
    # order only: programs hitting the two known crashes share packs (double kill time; exec of a1 suspended at its start)
    cases.sort(key=lambda c: not any(sum(op[0] == "K1" for op in ops) >= 2 for ops in c["prog"]))
    return cases


MINI = alpha_of(["s1", "e2"], ["kill", "join", "susp", "res"])
NODAEMON = alpha_of(["s1", "e2", "K1"], TARGETED)


def bounds(tier):
    solo = alpha_of([n for (n,) in SOLO], [])
    reboot = lambda A, K: enum(CTRL, A, K, rel=False, family="reboot")
    b = [("A=1 K<=2 (9 solo symbols)", lambda: enum(solo, 1, 1, rel=False) + enum(solo, 1, 2, rel=False)),
         ("A=2 K=1 full", lambda: enum(FULL, 2, 1)),
         ("reboot: victim + 1 controller K<=2", lambda: reboot(1, 1) + reboot(1, 2)),
         ("A=2 K=2 (s1, e2, kill, join, susp, res)", lambda: enum(MINI, 2, 2)),
         ("A=3 K=1 (s1, e2, K1 + 5 targeted symbols)", lambda: enum(NODAEMON, 3, 1))]
    if tier == "quick":
        return b
    return b + [("A=3 K=1 core (4 solo + 5 targeted symbols)", lambda: enum(CORE, 3, 1)),
                ("A=1 K=3 (9 solo symbols)", lambda: enum(solo, 1, 3, rel=False)),
                ("reboot: victim + 1 controller K=3", lambda: reboot(1, 3)),
                ("A=3 K=1 full", lambda: enum(FULL, 3, 1)),
                ("A=2 K=2 core", lambda: enum(CORE, 2, 2)),
                ("reboot: victim + 2 controllers K<=2", lambda: reboot(2, 1) + reboot(2, 2)),
                ("A=3 K=2 (s1, kill, join)", lambda: enum(TINY, 3, 2)),
                ("A=2 K=3 (s1, kill, join, susp, res)", lambda: enum(SMALL, 2, 3)),
                ("A=2 K=2 full", lambda: enum(FULL, 2, 2)),
                ("A=4 K=1 core", lambda: enum(CORE, 4, 1))]


def expand(case):
    out = []
    for i, ops in enumerate(case["prog"]):
        l, k = [], 1
        for op in ops:
            n = op[0]
            if n == "s1": l.append(["sleep", 1])
            elif n == "s2": l.append(["sleep", 2])
            elif n == "e2": l.append(["exec", 2 * GF])
            elif n == "kill": l.append(["kill", op[1]])
            elif n == "join": l.append(["join", op[1]])
            elif n == "jf": l.append(["join_for", op[1], 1])
            elif n == "susp": l.append(["suspend", op[1]])
            elif n == "res": l.append(["resume", op[1]])
            elif n == "SS": l.append(["suspend", "self"])
            elif n == "D": l.append(["daemonize"])
            elif n == "K1": l.append(["set_kill_time", "self", 1])
            elif n == "X":
                k += 1
                l.append(["on_exit", k])
            elif n == "KA": l.append(["kill_all"])
            elif n == "C": l.append(["create", "c%d" % i])
            elif n == "OFF": l.append(["host_off", "hv"])
            elif n == "ON": l.append(["host_on", "hv"])
            elif n == "killv": l.append(["kill", "v"])
            elif n == "joinv": l.append(["join", "v"])
            elif n == "suspv": l.append(["suspend", "v"])
            elif n == "resv": l.append(["resume", "v"])
            else: raise ValueError(n)
        out.append(l)
    return out


def build_prog(case):
    ops = expand(case)
    A = len(ops)
    hosts = [{"name": "h%d" % i} for i in range(A)]
    actors = []
    if case.get("family") == "reboot":
        hosts.append({"name": "hv"})
        actors.append({"name": "v", "host": "hv", "auto_restart": True, "on_exit": 1, "ops": [["sleep", 1.5], ["sleep", 1]]})
    actors += [{"name": "a%d" % i, "host": "h%d" % i, "on_exit": 1, "ops": ops[i]} for i in range(A)]
    for i in range(A):
        if any(op[0] == "C" for op in case["prog"][i]):
            hosts.append({"name": "g%d" % i})
            actors.append({"name": "c%d" % i, "host": "g%d" % i, "start": False, "on_exit": 1, "ops": [["sleep", 1.5]]})
    return {"hosts": hosts, "actors": actors}


def text(case):
    return ("reboot:" if case.get("family") == "reboot" else "") + "|".join(
        "[" + ",".join(" ".join(op) for op in ops) + "]" for ops in case["prog"])


def key_of(case, sig):
    return "prog=%s => %s" % (text(case), sig)


def signature(r):
    import re
    p = r["problems"][0] if r["problems"] else "?"
    p = re.sub(r"^simulation ended with status \d+", "simulation crashed", p)
    return re.sub(r"@[0-9.e+-]+", "", p)[:170]


def pack_safe(case, prog):
    """daemons are killed when the last non-daemon of the *simulation* ends: programs with daemons run alone"""
    return not any(op[0] == "D" for ops in case["prog"] for op in ops)


def judge(case, prog, obs):
    res = {"case": case, "ok": True, "problems": [], "error": None, "nontrivial": False}
    P = res["problems"]
    if obs["status"] != 0:
        res["ok"] = False
        P.append("simulation ended with status %s (%s)" % (obs["status"], obs.get("crash") or "no message"))
        return res
    clk = 0.0
    for (ev, val, c) in obs["sig"]:
        if c < clk:
            P.append("clock decreases in the signal log")
        clk = c
    for name, incs in obs["actors"].items():
        for log in incs:
            prev, ends, nreg, seen_exit = 0.0, [], 0, False
            for (ev, val, c) in log:
                if c < prev:
                    P.append("clock decreases in the log of %s" % name)
                prev = c
                if ev == "on_exit" and val == "ok":          # the registration op itself
                    nreg += 1
                if ev == "on_exit" and val != "ok":          # a callback: "k:failed:own|inh"
                    seen_exit = True
                    if val.endswith(":own"):
                        ends.append(int(val.split(":")[0]))
                elif seen_exit:
                    P.append("%s logs %s after its on_exit callbacks" % (name, ev))
            tmpl = next(a for a in prog["actors"] if a["name"] == name)
            base = tmpl.get("on_exit", 0)
            started = any(e not in ("start", "on_exit") or v == "ok" for (e, v, c) in log)   # got past its template set-up
            lo, hi = (base + nreg if started else 0), base + nreg + 1      # +1: a registration whose record was lost to a kill
            m = len(ends)
            if ends != list(range(m, 0, -1)) or not (lo <= m <= hi):
                P.append("%s: on_exit callbacks ran %s, %d..%d registered (must run once each, in reverse order)" % (name, ends, lo, hi))
            if not any(e == "end" for (e, v, c) in log):
                res["nontrivial"] = True
            for k in range(1, len(log)):
                if log[k][0] in ("join", "join_for", "suspend") and log[k][2] > log[k - 1][2]:
                    res["nontrivial"] = True
    try:
        end = obs["end"]
        allowed, ref = timed_ref.allowed(prog)
        if ref.deadlock and end is not None:
            allowed, ref = timed_ref.allowed(prog, end_date=F(end))
    except timed_ref.RefError as e:
        res["error"] = "reference: %s" % e
        return res
    real = timed_ref.normalize(obs)
    if not timed_ref.member(real, allowed):
        P.append("not allowed by the reference: " + timed_ref.first_diff(real, allowed))
        res["observed"] = timed_ref.show(real)
        res["expected"] = [timed_ref.show(o) for o in list(allowed)[:3]]
    res["ref_size"] = len(allowed)
    res["ok"] = not P
    return res


def run(ctx):
    mod = sys.modules[__name__]
    out = simcheck.run_bounds(ctx, mod, bounds(ctx.tier), K=32)
    vio = simcheck.violations(ctx, mod, out, size=lambda c: sum(len(o) for o in c["prog"]) * 10 + len(c["prog"]))
    sizes = [r.get("ref_size", 0) for rs in out["results"].values() for r in rs]
    coverage = {
        "evaluations": out["evaluations"], "distinct_nontrivial": len(out["nontrivial"]),
        "rule": "odometer over actors x lifecycle symbols, canonical forms, at least one op aimed at another actor (A>=2); one "
                "real simulation per program; non-trivial = distinct programs in whose real run an actor was ended by "
                "something else than reaching its last op, or a join/suspend really blocked",
        "samples": out["samples"], "exhaustive": out["exhaustive"], "bounds_completed": out["done"], "per_bound": out["per"],
        "programs_with_several_allowed_observations": sum(1 for s in sizes if s > 1),
        "max_allowed_observations": max(sizes) if sizes else 0,
        "violating_programs": len(out["bad"]),
    }
    if len(out["nontrivial"]) < 2:
        common.log("C11: vacuous run")
        raise SystemExit(2)
    common.finish(ctx, "exploration", coverage,
                  ["one host per actor; dyadic durations: exact dates compared with ==",
                   "lib/timed_ref.py decides the allowed observations (every order of simultaneous events); the failed flag "
                   "passed to on_exit callbacks and callbacks inherited through auto-restart are not part of the observation",
                   "programs with daemons or kill_all run alone, the others share a simulation by packs of 32"],
                  vio, engine="sim")


def replay(ctx, rf):
    return simcheck.replay(ctx, sys.modules[__name__], rf)
