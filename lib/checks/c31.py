"""C31 — predefined reduction operators compute MPI results (engine E7 mpix, harness/mpix/c31/ops.cpp).

All 14 predefined operators x all 56 predefined basic / pair / Fortran-named / C++ datatypes of smpi.h x all ordered operand
pairs from the extreme-value alphabets ({min,-1,0,1,2,max} signed, {0,1,2,max} unsigned, {-1.5,0,1,1e30} floating,
{false,true}, {-1.5,0,1,2.5}^2 complex, value alphabet x index {0,1} for pair types) x counts {0,1,3} (quick) / {0,1,2,3,5,8} (thorough), through
MPI_Reduce_local (1 rank), a 2-rank MPI_Allreduce, and (MPI_REPLACE / MPI_NO_OP, which MPI only allows in RMA)
MPI_Accumulate / MPI_Get_accumulate on a 2-rank window; every buffer framed by 64 canary bytes.
Oracle: element-wise MPI definitions written with C++ operators on the machine type of the datatype's category and reported
size; the MPI table of section 5.9.2 says which (operator, type) pairs must be supported; other pairs may be rejected
(without writing) or accepted with the natural result. A pair that aborts the simulation is isolated by re-running from the
next pair."""
import os, sys, json, time, concurrent.futures as cf
import common, mpix

MODES = [("local", 1), ("allreduce", 2), ("rma", 2)]
COUNTERS = ["cases", "elems", "unconstrained", "rejected_cases", "accepted_without_natural_meaning", "ties"]
NPAIRS = 14 * 56
# counts are enumerated in this order inside every (operator, type) pair: the first failing case of a pair is the same in both tiers
COUNTS = {"quick": "0,1,3", "thorough": "0,1,3,2,5,8"}
DESCR = {
    "wrong-result": "the operator's result differs from the element-wise MPI definition",
    "valid-pair-rejected": "an (operator, datatype) pair that MPI requires is rejected with an error code",
    "valid-pair-aborts": "an (operator, datatype) pair that MPI requires aborts the simulation",
    "rejected-but-wrote": "the call returned an error but modified the output buffer",
    "wrote-beyond-count": "bytes after the count elements of the output buffer were modified",
    "frame-overrun": "the canary frame around a buffer was damaged (kernel uses a wider C type than the datatype)",
    "input-modified": "the input buffer was modified",
    "abort-unexpected": "the simulation died with something else than the operator/type message",
}


def _sortkey(d):
    return ([m for m, _ in MODES].index(d["via"]), int(d["pair"]), int(d["case"]), int(d["rank"]))


def _key(d):
    k = d["kind"].split("/")[0]
    s = "C31 %s via=%s op=%s type=%s" % (k, d["via"], d["op"], d["type"])
    for f in ("count", "a", "b", "rank"):
        if f in d:
            s += " %s=%s" % (f, d[f])
    return s


def _run_mode(job):
    """Runs all pairs of one mode, resuming after every pair that kills the simulation."""
    tmp, binary, mode, np_, first, last, timeout, counts = job
    outs, aborts = [], []
    while first <= last:
        rc, out, err = mpix.smpirun(tmp, binary, np_, [mode, first, last, -1, counts], timeout=timeout)
        outs.append(out)
        if rc == 0:
            break
        if rc == 124:
            return {"mode": mode, "out": "\n".join(outs), "aborts": aborts, "complete": False}
        ps = [d for t, d in mpix.records(out) if t == "P"]
        if not ps:
            aborts.append({"pair": first, "op": "?", "type": "?", "valid": "1", "msg": err[-400:], "rc": rc})
            return {"mode": mode, "out": "\n".join(outs), "aborts": aborts, "complete": False}
        last_p = ps[-1]
        msg = [l for l in err.splitlines() if "CRITICAL" in l or "rror" in l][:1]
        aborts.append(dict(last_p, rc=rc, msg=(msg[0] if msg else err.strip()[-300:])))
        first = int(last_p["pair"]) + 1
    return {"mode": mode, "out": "\n".join(outs), "aborts": aborts, "complete": True}


def _rerun(tmp, binary, case):
    np_ = dict(MODES)[case["via"]]
    rc, out, err = mpix.smpirun(tmp, binary, np_, [case["via"], case["pair"], case["pair"], case["case"], case["counts"]], timeout=120)
    return rc, [d for t, d in mpix.records(out) if t == "V"], err


def run(ctx):
    binary = mpix.build_smpi("c31_ops", ["c31/ops.cpp"], cxx=True)
    tmp = common.tmpdir("c31")
    mpix.platform(tmp)
    agg = mpix.Agg(_sortkey, COUNTERS)
    # the whole grid is one bound (quick == thorough); one job per (mode, operator) so that the cores are used and a pair that
    # aborts only costs the re-run of the rest of its operator
    NT = NPAIRS // 14
    counts = COUNTS[ctx.tier]
    jobs = [(tmp, binary, m, n, o * NT, (o + 1) * NT - 1, max(120, ctx.deadline.left() + 300), counts)
            for m, n in MODES for o in range(14) if m != "rma" or o >= 12]
    with cf.ThreadPoolExecutor(max_workers=common.NCPU) as ex:
        res = list(ex.map(_run_mode, jobs))
    complete = all(r["complete"] for r in res)
    table, skipped, aborts = {}, set(), []
    per_mode = {}
    for r in res:
        before = dict(agg.tot)
        agg.absorb(r["out"], count_from=lambda d: d["rank"] == "0")
        pm = per_mode.setdefault(r["mode"], dict.fromkeys(COUNTERS, 0))
        for c in COUNTERS:
            pm[c] += agg.tot[c] - before[c]
        for t, d in mpix.records(r["out"]):
            if t == "P":
                table[(d["op"], d["type"])] = d
            elif t == "T":
                skipped.add(d["type"])
        for a in r["aborts"]:
            aborts.append(dict(a, via=r["mode"]))

    violations, todo = [], []
    for kind, k in sorted(agg.kinds.items()):
        d = k["first"]
        if d is None:
            common.log("C31: kind %s counted but no record kept" % kind)
            sys.exit(2)
        case = {"via": d["via"], "pair": int(d["pair"]), "case": int(d["case"]), "kind": kind, "record": d, "counts": counts}
        todo.append((_key(d), d, (lambda c: (lambda: _rerun(tmp, binary, c)))(case)))
        det = " ".join("%s=%s" % (a, d[a]) for a in ("elem", "in", "inout", "got", "exp", "fetched", "rc") if a in d)
        violations.append(common.Violation(_key(d), "%s; first of %d failing cases of this (operator, type) (%s)" % (
            DESCR.get(kind.split("/")[0], kind), k["count"], det), case))
    # A kernel that reads past the elements (wrong C type) makes MPI_Allreduce results depend on heap garbage: such a record may
    # not repeat identically. It is dropped only if the same (operator, type) has a violation that does repeat; otherwise exit 2.
    bad = mpix.confirm_all("C31", todo, fatal=False)
    unstable = []
    if bad:
        badkeys = {k for k, _ in bad}
        good_pairs = {(v.case["record"]["op"], v.case["record"]["type"]) for v in violations if v.key not in badkeys}
        for k, msg in bad:
            v = next(v for v in violations if v.key == k)
            if (v.case["record"]["op"], v.case["record"]["type"]) not in good_pairs:
                common.log(msg)
                sys.exit(2)
            unstable.append(k)
        violations = [v for v in violations if v.key not in badkeys]
    n_abort_ok, abort_cases, abort_ok = 0, [], set()
    for a in aborts:
        optype = "Failed to apply" in a["msg"]
        if a.get("valid") == "1" or not optype:
            kind = "valid-pair-aborts" if optype else "abort-unexpected"
            key = "C31 %s via=%s op=%s type=%s" % (kind, a["via"], a["op"], a["type"])
            case = {"via": a["via"], "pair": int(a["pair"]), "case": -1, "kind": "abort", "counts": counts}
            abort_cases.append((key, case))
            violations.append(common.Violation(key, "%s: %s" % (DESCR[kind], a["msg"].strip()[-200:]), case))
        else:
            n_abort_ok += 1
            abort_ok.add("%s/%s" % (a["op"], a["type"]))

    def _abort_again(kc):
        key, case = kc
        return [key for attempt in (1, 2) if _rerun(tmp, binary, case)[0] == 0]
    with cf.ThreadPoolExecutor(max_workers=common.NCPU) as ex:
        bad = [k for ks in ex.map(_abort_again, abort_cases) for k in ks]
    if bad:
        common.log("C31: aborts did not reproduce: harness bug: %s" % bad)
        sys.exit(2)

    sizes_unexpected = sorted({"%s:size=%s(MPI:%s)" % (d["type"], d["size"], d["mpisize"]) for d in table.values()
                               if d["mpisize"] != "0" and d["mpisize"] != d["size"]})
    nontriv = agg.tot["ties"] + agg.tot["unconstrained"]
    cov = {
        "evaluations": agg.tot["cases"],
        "distinct_nontrivial": nontriv,
        "rule": "cases = (mode, operator, datatype, count, operand pair) on rank 0; non-trivial = distinct element evaluations "
                "where the extremes collide: MINLOC/MAXLOC ties (equal values, index decides) + signed SUM/PROD evaluations whose exact "
                "result overflows the type (result unconstrained, frame still checked)",
        "samples": [
            {"via": "local", "op": "MPI_MAXLOC", "type": "MPI_DOUBLE_INT", "count": 1, "in": "(1,1)", "inout": "(1,0)", "expected": "(1,0)"},
            {"via": "allreduce", "op": "MPI_PROD", "type": "MPI_C_FLOAT_COMPLEX", "count": 3, "rank0": "(-1.5,2.5)", "rank1": "(1,-1.5)"},
            {"via": "rma", "op": "MPI_NO_OP", "type": "MPI_INT64_T", "count": 3, "origin": "min", "target": "max", "fetched_expected": "max"},
        ],
        "exhaustive": complete, "counts": counts,
        "operator_type_pairs": len(table), "pairs_mpi_requires": sum(1 for d in table.values() if d["valid"] == "1"),
        "per_mode": per_mode, "elements_compared": agg.tot["elems"],
        "cases_rejected_with_error_code": agg.tot["rejected_cases"],
        "pairs_rejected_by_abort_with_operator_type_message": n_abort_ok,
        "info_optional_pairs_refused_by_abort": sorted(abort_ok),
        "info_elements_accepted_without_natural_meaning": agg.tot["accepted_without_natural_meaning"],
        "info_types_skipped_no_machine_type": sorted(skipped),
        "info_type_sizes_differ_from_mpi": sizes_unexpected,
        "violation_kinds": {k: v["count"] for k, v in agg.kinds.items()},
        "unstable_records_dropped_because_same_pair_fails_reproducibly": unstable,
    }
    mpix.cleanup(tmp)
    if nontriv < 2:
        common.log("C31: vacuous run")
        sys.exit(2)
    common.finish(ctx, "exploration", cov, [
        "oracle = C++ operators on the machine type selected by the datatype's category and the size/extent the implementation reports "
        "(harness/mpix/c31/ops.cpp); the MPI-3.1 5.9.2 table decides which pairs must work",
        "signed integer SUM/PROD results that overflow are unconstrained (undefined in C); NaN operands are not used; complex operands are small "
        "so that the textbook product cannot overflow",
        "pairs outside the MPI table may be rejected or accepted with the natural result (extensions such as SUM on MPI_CHAR are not violations)",
    ], violations, engine="mpix")


def replay(ctx, case):
    binary = mpix.build_smpi("c31_ops", ["c31/ops.cpp"], cxx=True)
    tmp = common.tmpdir("c31r")
    mpix.platform(tmp)
    c = case["case"]
    rc, vs, err = _rerun(tmp, binary, c)
    mpix.cleanup(tmp)
    for v in vs:
        print("V " + " ".join("%s=%s" % kv for kv in v.items()))
    if c["kind"] == "abort":
        print("exit code %d" % rc)
        print("\n".join(l for l in err.splitlines() if "CRITICAL" in l))
        return 1 if rc != 0 else 0
    hit = [v for v in vs if v["kind"] == c["kind"]]
    print("replay of %s: exit %d, %d violation record(s), %d of kind %s" % (case.get("key"), rc, len(vs), len(hit), c["kind"]))
    return 1 if hit or rc != 0 else 0
