"""C38 Model-checker reductions are sound: for every program, simgrid-mc under every reduction / explorer / strategy must
reach exactly the terminal outcomes of the reference semantics and report a deadlock / assertion failure iff one is reachable."""
import os, time, shutil, json
import common, vxlib, rs, smc, synccheck, mcprogs

REDUCTIONS = ["none", "dpor", "sdpor", "odpor"]

def configs(ctx):
    c = []
    for red in REDUCTIONS:
        c.append((red + "/DFS", ["model-check/reduction:" + red]))
        c.append((red + "/BeFS", ["model-check/reduction:" + red, "model-check/exploration-algo:BeFS"]))
        seeds = (0,) if ctx.quick else (0, 1, 2)
        for s in seeds:
            c.append((red + "/DFS/uniform%d" % s, ["model-check/reduction:" + red, "model-check/strategy:uniform", "model-check/rand-seed:%d" % s]))
            c.append((red + "/BeFS/uniform%d" % s, ["model-check/reduction:" + red, "model-check/exploration-algo:BeFS", "model-check/strategy:uniform", "model-check/rand-seed:%d" % s]))
    c.append(("udpor/DFS", ["model-check/reduction:udpor"]))
    return c

def bounds(ctx):
    import c04, c05, c08
    b = [("misc", mcprogs.misc()), ("lost-update", mcprogs.chain(mcprogs.lost_update(2, False), mcprogs.lost_update(2, True))),
         ("mutex-A2K2", c04.gen([0], 2, 2)), ("sem-A2K2", c05.gen([0], 2, 2, ops=("acq", "rel"))), ("mbox-A2K1", c08.gen(("put", "get", "PA", "GA", "det"), 1, 2, 1))]
    if not ctx.quick:
        b += [("mutex", mcprogs.family("c04", ["plain-A2K3"])), ("sem", mcprogs.family("c05", ["c0-A2K2-acqt"])),
              ("mutex-rec", mcprogs.family("c04", ["rec-A2K3"])), ("mbox", mcprogs.family("c08", ["basic-A2K2"])), ("condvar", mcprogs.family("c06", ["A2K2"])),
              ("barrier", mcprogs.family("c07", ["n2-A1to4"])), ("mutex3", mcprogs.family("c04", ["plain-A3K2"])), ("mbox-any", mcprogs.family("c08", ["any-A2K2"]))]
    return b

UDPOR_OK = ("lock", "unlock", "acq", "rel", "put", "get", "puta", "geta", "wait", "test")

def key_of(kind, cfg, prog):
    """case key = violated clause + checker configuration (seed dropped) + the kinds of operations the program uses"""
    import re
    cfg = re.sub(r"uniform\d+", "uniform", cfg)
    if "uniform" in cfg:   # the uniform strategy loses executions on every kind of program: one class per clause and configuration
        return "C38 %s cfg=%s" % (kind, cfg)
    return "C38 %s cfg=%s uses=%s" % (kind, cfg, mcprogs.features(prog))

def _job(item):
    """one program under every configuration"""
    pid, prog, idx, pfile, cfgs, binary, workdir = item
    ref = rs.explore(prog)
    terms = set(smc.norm(ref["states"][t][0]) for t in ref["terminals"])
    ref_dl = any(rs.is_deadlock(c) for c in terms)
    ref_as = any("ASSERTFAIL" in c for c in terms)
    ref_ok = set(c for c in terms if "ASSERTFAIL" not in c)
    out = dict(pid=pid, runs=0, ref_terminals=len(terms), ref_dl=ref_dl, ref_as=ref_as, problems=[], counterexamples=[], traces={})
    udpor_able = all(op[0] in UDPOR_OK for a in prog["actors"] for op in a) and not prog.get("templates")
    for name, cfg in cfgs:
        if name.startswith("udpor") and not udpor_able:
            continue
        failing = ref_dl or ref_as
        r = smc.run(binary, pfile, idx, cfg, workdir, "%s-%d" % (pid, os.getpid()), max_errors=0)  # default: the checker stops at its first report
        out["runs"] += 1
        out["traces"][name] = r["traces"]
        if r["timeout"]:
            out["inconclusive"] = out.get("inconclusive", 0) + 1  # too slow on this (loaded) machine: not a verdict
            continue
        if r["rc"] not in (0, 1, 2):
            import re
            if "Please submit a bug report requesting that the transition be supported" in r["out"]:
                continue  # explicit 'unsupported by UDPOR' message: a clear refusal, not a violation
            out["problems"].append((name, "crash", "simgrid-mc exit code %s: %s" % (r["rc"], r["out"][-300:].replace("\n", " / "))))
            continue
        rep_as = r["rc"] == 1 or "PROPERTY NOT VALID" in r["out"]
        if r["deadlock"] and not ref_dl:
            out["problems"].append((name, "spurious-deadlock", "checker reports a deadlock, the reference has no reachable deadlock"))
        if rep_as and not ref_as:
            out["problems"].append((name, "spurious-assertion-failure", "checker reports an assertion failure, the reference has none reachable"))
        if failing and not (r["deadlock"] or rep_as):
            out["problems"].append((name, "missed-failure", "checker reports nothing, the reference has a reachable %s" % ("deadlock" if ref_dl else "assertion failure")))
        if not name.startswith("udpor"):
            got = set(c for c in r["terminals"] if "ASSERTFAIL" not in c)
            # a checker may stop at its first report: on failing programs only soundness (no unknown outcome) is required
            if (got - ref_ok) if failing else (got != ref_ok):
                miss, extra = sorted(ref_ok - got), sorted(got - ref_ok)
                out["problems"].append((name, "terminal-outcomes", "missed %d of %d reference outcomes, %d unknown outcomes; first missed: %s; first unknown: %s" % (
                    len(miss), len(ref_ok), len(extra), miss[:1], extra[:1])))
        for p in r["paths"]:
            out["counterexamples"].append((name, p))
    return out

def run(ctx):
    binary = vxlib.vx_binary()
    cfgs = configs(ctx)
    d = common.tmpdir("c38")
    tot = dict(programs=0, runs=0, failing_programs=0, ref_terminals=0)
    completed, violations, samples = [], [], []
    exhaustive = True
    for name, gen in bounds(ctx):
        if ctx.deadline.left() < 20:
            exhaustive = False
            break
        t0 = time.time()
        progs = [("%s-%d" % (name, i), p) for i, p in enumerate(gen())]
        # ground truth first: the implementation's own transition system must conform to the reference (else C04-C09 report it)
        graphs = vxlib.run_vx(progs, "c38" + name, deadline=ctx.deadline.end)
        pfile = os.path.join(d, name + ".txt")
        open(pfile, "w").write("".join(vxlib.prog_text(pid, p) for pid, p in progs))
        jobs = [(pid, p, i, pfile, cfgs, binary, d) for i, (pid, p) in enumerate(progs)]
        # deadline-aware: process in chunks of 64 programs
        done = 0
        for k in range(0, len(jobs), 64):
            if ctx.deadline.left() < 15:
                exhaustive = False
                break
            for res in common.pmap(_job, jobs[k:k + 64]):
                pid = res["pid"]; p = dict(progs)[pid]
                g = graphs[pid]
                ref = rs.explore(p)
                if g["status"] != "OK" or vxlib.conform(g, ref)[3] is not None:
                    continue  # kernel and reference disagree on this program: not a statement about the checker
                tot["programs"] += 1; tot["runs"] += res["runs"]; tot["ref_terminals"] += res["ref_terminals"]
                if res["ref_dl"] or res["ref_as"]:
                    tot["failing_programs"] += 1
                tot["inconclusive"] = tot.get("inconclusive", 0) + res.get("inconclusive", 0)
                for cfg, kind, what in res["problems"]:
                    violations.append(common.Violation(key_of(kind, cfg, p), what + " -- program: " + synccheck.compact(p), dict(program=p, config=dict(cfgs)[cfg], config_name=cfg, kind=kind)))
                done += 1
        if len(samples) < 4 and progs:
            samples.append(dict(bound=name, program=synccheck.compact(progs[0][1]), configurations=[c for c, _ in cfgs][:6]))
        completed.append(dict(bound=name, programs=done, of=len(progs), wall_s=round(time.time() - t0, 1)))
        common.log("C38 bound %s: %d/%d programs, %.0fs, violations so far %d" % (name, done, len(progs), time.time() - t0, len(violations)))
        if done < len(progs):
            exhaustive = False
    shutil.rmtree(d, ignore_errors=True)
    if tot["programs"] < 2:
        common.log("vacuous run"); raise SystemExit(2)
    uniq = {}
    for v in violations:   # one report per case key (first program showing it)
        uniq.setdefault(v.key, v)
    violations = _confirm(list(uniq.values()), binary)
    cov = dict(evaluations=tot["runs"], distinct_nontrivial=tot["failing_programs"], programs=tot["programs"],
               rule="every program of the bound x every configuration (reduction x explorer x strategy/seed) = one complete run of simgrid-mc, its visited terminal states "
                    "(H1 hook) and verdict compared with the reference semantics; non-trivial = programs with a reachable deadlock or assertion failure",
               configurations=len(cfgs), unreproducible_dropped=len(dropped), runs_too_slow_to_conclude=tot.get("inconclusive", 0), reference_terminal_states=tot["ref_terminals"], bounds_completed=completed, samples=samples, exhaustive=exhaustive,
               states=tot["ref_terminals"], transitions=tot["runs"], traces_validated_against_impl=tot["programs"])
    common.finish(ctx, "model_checking", cov,
                  ["ground truth = reference semantics lib/rs.py, itself bound to the kernel by the conformance walk of C04-C09 (programs on which kernel and reference disagree are skipped here)",
                   "udpor is compared on verdicts only (it does not run executions to their end) and only on its supported sub-alphabet",
                   "the 'parallel' explorer is documented as work in progress and is not checked"], violations, engine="E3 smc + E2 rs")

dropped = []

def _confirm(violations, binary):
    """re-run each failing (program, configuration) alone twice; verdicts must be identical"""
    out = []
    global dropped
    dropped = []
    d = common.tmpdir("c38c")
    for v in violations[:60]:
        pf = os.path.join(d, "p.txt"); open(pf, "w").write(vxlib.prog_text("x", v.case["program"]))
        again = [_job(("x", v.case["program"], 0, pf, [(v.case["config_name"], v.case["config"])], binary, d)) for _ in range(2)]
        kinds = [sorted(k for _, k, _ in a["problems"]) for a in again]
        if kinds[0] != kinds[1] or v.case["kind"] not in kinds[0]:
            if again[0].get("inconclusive") or again[1].get("inconclusive"):
                continue
            common.log("C38: violation did not reproduce identically: %s -> %s" % (v.key, kinds))
            dropped.append(v.key)   # a verdict of an external process that does not repeat is not reported (counted in the evidence)
            continue
        out.append(v)
    shutil.rmtree(d, ignore_errors=True)
    return out + violations[60:]

def replay(ctx, case):
    c = case["case"]; binary = vxlib.vx_binary(); d = common.tmpdir("c38r")
    pf = os.path.join(d, "p.txt"); open(pf, "w").write(vxlib.prog_text("x", c["program"]))
    r = _job(("x", c["program"], 0, pf, [(c["config_name"], c["config"])], binary, d))
    print("program:", synccheck.compact(c["program"])); print("configuration:", c["config"])
    print("reference: terminals=%d deadlock=%s assertion=%s" % (r["ref_terminals"], r["ref_dl"], r["ref_as"]))
    for p in r["problems"]:
        print("PROBLEM", p)
    shutil.rmtree(d, ignore_errors=True)
    return 1 if r["problems"] else 0
