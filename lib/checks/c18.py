"""C18 — concurrency limits are enforced without starvation.  Engine E5 lmmx, level model_checking.

Every history over {new variable + expands, free, set penalty 0 / >0} up to a length bound is applied to a real
lmm::System whose constraints have concurrency limits; after EVERY operation an oracle that does not use the kernel's lists
recounts, from the variables' own element vectors, the enabled elements of weight >= 1 on each constraint and requires
concurrency_current_ == that number <= limit, and that every staged variable uses a constraint with no free slot.
A violation is attributed to the operation that took the system from a good state to a bad one."""
import itertools
import common, lmm_common as L

PROP = "C18"


def shards(quick):
    out = []
    def add(fam, prio, base, **kw):
        kw.setdefault("pset", (0, 1))
        out.append(dict(L.shard("c18", ops="NXFP", bv=(), bc=(), **kw), fam=fam, prio=prio, base=base))
    b = 5 if quick else 6
    V = 3 if quick else 4
    for lim in [(1,), (2,)] + ([] if quick else [(3,)]):
        for pol in ("S", "F"):
            add("1 constraint", 1, b + 1, nc=1, pol=pol, lim=lim, V=V)
    lims2 = [l for l in itertools.product((-1, 1, 2), repeat=2) if l != (-1, -1)]
    for lim in lims2:
        for pol in (("SS", "FF") if quick else ("SS", "FF", "SF")):
            add("2 constraints", 2, b, nc=2, pol=pol, lim=lim, V=V)
    lims3 = [(1, 1, 1), (1, 2, 1), (2, 1, -1), (1, -1, 2)] if quick else \
        [l for l in itertools.product((-1, 1, 2), repeat=3) if l.count(-1) <= 1 and l[0] >= l[2]]
    for lim in lims3:
        add("3 constraints", 3, b - 1, nc=3, pol="SSS", lim=lim, V=3)
    if not quick:
        for lim in [(1, 2), (2, 2), (3, 1)]:    # penalty 2 (the staged value that must be restored), limit 3
            add("2 constraints, penalties {0,1,2}", 4, b - 1, nc=2, pol="SS", lim=lim, V=4, pset=(0, 1, 2), pnew=(0, 1, 2))
    return out


def run(ctx):
    shs = shards(ctx.quick)
    shs, res, stages, complete = L.explore(ctx, shs, increments=2 if ctx.quick else 3, reserve=60 if ctx.quick else 60)
    if any(r is None for r in res):
        common.log("C18: not even the first bound completed")
        raise SystemExit(2)
    classes, unjudged, stats = L.collect(PROP, shs, res)
    viols = L.confirm(PROP, classes)
    if stats.get("steps_ending_with_staged_variables", 0) < 2 or stats.get("promotions_of_staged_variables", 0) < 2:
        common.log("C18: vacuous run (%s)" % stats)
        raise SystemExit(2)
    samples = [{"shard": L.shard_name(sh), "history": h} for sh, r in list(zip(shs, res))[:6] for h in r["samples"][-2:]]
    cov = {
        "states": sum(r["states"] for r in res),
        "transitions": sum(r["transitions"] for r in res),
        "reference_evaluations": sum(r["oracle_evaluations"] for r in res),
        "traces_validated_against_impl": sum(r["transitions"] for r in res),
        "samples": samples,
        "exhaustive": bool(complete),
        "history_length_completed_per_family": L.depths_by_family(shs, res),
        "shards": len(shs),
        "stages": stages,
        "steps_ending_with_staged_variables": stats.get("steps_ending_with_staged_variables", 0),
        "steps_ending_with_a_full_constraint": stats.get("steps_ending_with_full_constraints", 0),
        "stagings": stats.get("stagings", 0),
        "promotions_of_staged_variables": stats.get("promotions_of_staged_variables", 0),
        "violating_transitions": {k: c["count"] for k, c in classes.items()},
        "unjudged_outcomes": L.note_unjudged(unjudged),
        "alphabet": "N:p:c:w new variable (penalty p) expanded on constraint c with weight w; X:v:c:w further expand of the "
                    "variable being created (adds to the weight on a shared constraint); F:v free; SP:v:p set penalty",
    }
    assumptions = [
        "limits {-1,1,2(,3)} on <=3 constraints, <=3 (4) live variables, weights {0.5 (not counted), 1 (counted)}; an element "
        "counts towards the limit iff its weight is >= 1 (documented rule; WIFI constraints not used)",
        "solve, set-variable-bound and set-constraint-bound are not in this alphabet: they never touch penalties, element "
        "lists or counters (code reading); the fingerprint keeps exactly the fields the concurrency code reads (penalty, "
        "staged penalty, element vectors and weights, enabled set, disabled list order, counter)",
        "a violation is reported on the good->bad transition only; states behind it are still explored",
        "the variable mallocator of each System is shrunk to 8 objects (performance only)",
    ]
    common.finish(ctx, "model_checking", cov, assumptions, viols, engine=L.ENGINE)


def replay(ctx, case):
    return L.replay(ctx, case)
