"""C29 — every collective algorithm computes the MPI result (engine E7 "mpix", level exploration).

One SMPI interpreter (harness/mpix/c29/coll.cpp) loops over the whole (np x root x count x type x op x variant) grid of
one collective inside one simulation of 17 ranks; this driver runs it once per (collective, algorithm, rank layout),
finds the case in progress when a run dies (crash-proof mmap'ed score file, bisection as fallback), records it, resumes
after it.  Oracle: sequential reference computed in the interpreter from a pure value function (independent of SimGrid).
"""
import os, re, sys, json, time, signal, struct, subprocess, shutil, random
import common
from common import Violation

ENGINE = "mpix"


def common_exit2(msg):
    """harness / driver problem: never a VIOLATION (exit code 2)"""
    common.log(msg)
    return SystemExit(2)
NP = 17            # world size of the thorough grid; the quick grid (sizes <= 8) runs in a world of 8: see world()
SELECTABLE = ["bcast", "reduce", "allreduce", "allgather", "allgatherv", "alltoall", "alltoallv", "gather", "scatter",
              "reduce_scatter", "barrier"]
SINGLE = ["gatherv", "scatterv", "scan", "exscan", "alltoallw", "reduce_scatter_block"]
NONBLOCKING = ["i" + c for c in SELECTABLE + SINGLE]
LAYOUTS = ["flat", "smp4"]
OPS = ["SUM", "PROD", "MAX", "MIN", "MAXLOC", "BXOR", "USER", "-"]
TYS = ["int", "double", "contig2int"]
ROOTED = {"bcast", "reduce", "gather", "scatter", "gatherv", "scatterv"}
REFUSAL = re.compile(r"Uncaught exception std::invalid_argument: (.*)")

PLATFORM = """<?xml version='1.0'?>
<!DOCTYPE platform SYSTEM "https://simgrid.org/simgrid.dtd">
<platform version="4.1">
  <zone id="AS0" routing="Full">
    <cluster id="c" prefix="h" suffix="" radical="0-16" speed="1Gf" bw="125MBps" lat="50us" core="4"/>
  </zone>
</platform>
"""


def world(grid):
    return 8 if grid == "q" else NP


def smpicxx():
    return os.path.join(common.SG, "smpi_script", "bin", "smpicxx")


def smpimain():
    return os.path.join(common.SG, "lib", "simgrid", "smpimain")


def build():
    return common.build_harness("c29coll", ["mpix/c29/coll.cpp"], cxx=smpicxx(), link_simgrid=False,
                                flags=["-std=c++17", "-O1", "-g0", "-w"])


def setup_dir(d):
    os.makedirs(os.path.join(d, "stmp"), exist_ok=True)
    open(os.path.join(d, "plat.xml"), "w").write(PLATFORM)
    open(os.path.join(d, "hf_flat"), "w").write("".join("h%d\n" % i for i in range(NP)))
    open(os.path.join(d, "hf_smp4"), "w").write("".join("h%d\n" % (i // 4) for i in range(NP)))


def algorithms():
    """{collective: [algo,...]} as printed by the library under test (smpirun -help-coll == smpimain --help-coll)."""
    out = subprocess.run([smpimain(), "--help-coll"], stdout=subprocess.PIPE, stderr=subprocess.STDOUT, text=True).stdout
    algos, cur = {}, None
    for line in out.splitlines():
        m = re.match(r'Collective: "(\w+)"', line)
        if m:
            cur = algos.setdefault(m.group(1), [])
        elif cur is not None and re.match(r"  \S", line):
            cur.append(line.split()[0])
    return algos


def command(binary, d, coll, algo, layout, args, nranks=None):
    """What smpirun -np 17 -platform plat.xml -hostfile hf --cfg=smpi/<coll>:<algo> ./coll args does, minus the shell."""
    grid = args[0]
    cmd = [smpimain(), binary, "--cfg=smpi/privatization:no", "--cfg=smpi/np:%d" % (nranks or world(grid)),
           "--cfg=smpi/hostfile:" + os.path.join(d, "hf_" + layout), "--cfg=precision/timing:1e-9",
           "--cfg=network/model:SMPI", "--log=root.thres:warning", "--cfg=debug/stacktrace:none",
           "--cfg=smpi/simulate-computation:no",     # no wall-clock dependent simulated time: runs are deterministic
           "--cfg=smpi/tmpdir:" + os.path.join(d, "stmp")]
    if algo != "-":
        cmd.append("--cfg=smpi/%s:%s" % (coll, algo))
    return cmd + [os.path.join(d, "plat.xml"), coll] + args


def list_cases(binary, d, coll, grid):
    env = dict(os.environ, LD_LIBRARY_PATH=os.path.join(d, "stmp"))
    r = subprocess.run(command(binary, d, coll, "-", "flat", [grid, "list"]), stdout=subprocess.PIPE,
                       stderr=subprocess.PIPE, text=True, env=env)
    cases = []
    for line in r.stdout.splitlines():
        if line.startswith("C "):
            f = list(map(int, line.split()[1:]))
            cases.append({"id": f[0], "np": f[1], "root": f[2], "count": f[3], "ty": f[4], "op": f[5], "var": f[6],
                          "nontrivial": f[7]})
    if not cases:
        common.log(r.stdout[-2000:], r.stderr[-2000:])
        raise common_exit2("C29: interpreter produced no case list for %s (exit 2)" % coll)
    return cases


class RunResult:
    pass


MALLOC_DEBUG = next((p for p in ("/lib/x86_64-linux-gnu/libc_malloc_debug.so.0", "/usr/lib64/libc_malloc_debug.so.0")
                     if os.path.exists(p)), None)


def run_env(d):
    """glibc's checking allocator makes heap overruns inside an algorithm abort where they happen (and identically on
    every run) instead of corrupting a later case."""
    env = dict(os.environ, LD_LIBRARY_PATH=os.path.join(d, "stmp"))
    if MALLOC_DEBUG and os.environ.get("C29_MALLOC", "1") != "0":
        env.update(LD_PRELOAD=MALLOC_DEBUG, MALLOC_CHECK_="3")
    return env


def run_ranges(binary, d, coll, algo, layout, grid, ranges, timeout, tag, nranks=None, minsize=1):
    """nranks: size of MPI_COMM_WORLD for this simulation (>= the largest communicator of the cases run)."""
    score = os.path.join(d, "score-%s" % tag)
    with open(score, "wb") as f:
        f.write(b"\xff" * 4096)      # every cur[] = -1: no rank is inside a case
    env = run_env(d)
    cmd = command(binary, d, coll, algo, layout, [grid, "run", score, "sizes=%d-%d" % (minsize, world(grid))] + ["%d:%d" % r for r in ranges], nranks)
    p = subprocess.Popen(cmd, stdout=subprocess.PIPE, stderr=subprocess.PIPE, env=env, start_new_session=True)
    res = RunResult()
    res.timeout = False
    try:
        out, err = p.communicate(timeout=timeout)
    except subprocess.TimeoutExpired:
        res.timeout = True
        try:
            os.killpg(p.pid, signal.SIGKILL)
        except ProcessLookupError:
            pass
        out, err = p.communicate()
    res.rc = p.returncode
    out = out.decode("utf-8", "replace")
    res.err = err.decode("utf-8", "replace")
    res.bad, res.errcode, res.refused, res.done = {}, {}, {}, 0
    for line in out.splitlines():
        if line.startswith("BAD "):
            f = line.split()
            cid = int(f[1])
            kv = dict(x.split("=", 1) for x in f[2:])
            if cid not in res.bad or int(kv["rank"]) < int(res.bad[cid]["rank"]):
                res.bad[cid] = kv
        elif line.startswith("ERR "):
            f = line.split()
            res.errcode.setdefault(int(f[1]), dict(x.split("=", 1) for x in f[2:]))
        elif line.startswith("REFUSED "):
            f = line.split(None, 3)
            res.refused.setdefault(int(f[1]), f[3][4:] if len(f) > 3 and f[3].startswith("msg=") else "")
        elif line.startswith("DONE "):
            res.done += 1
        elif line.startswith("HARNESS-ERROR"):
            raise common_exit2("C29: " + line + " (exit 2)")
    W = nranks or world(grid)
    raw = open(score, "rb").read(384)
    cur = struct.unpack("32i", raw[:128])[:W]
    res.last = sorted(set(c for c in struct.unpack("32i", raw[256:384])[:W] if c >= 0), reverse=True)
    os.unlink(score)
    res.inprog = sorted(set(c for c in cur if c >= 0))
    res.deadlock = "Deadlock detected" in res.err
    res.complete = (res.done == W and not res.timeout and res.rc == 0 and not res.deadlock)
    return res


def slug(msg):
    msg = re.sub(r"0x[0-9a-f]+|\d+", "N", msg)
    msg = re.sub(r"[^A-Za-z0-9_=<>!*+/%.-]+", "-", msg).strip("-")
    return msg[:60]


def classify(res):
    """(kind, text) of a run that did not complete. kind 'refused' is the explicit-message refusal."""
    m = REFUSAL.search(res.err)
    if m:
        return "refused", m.group(1).strip()
    if res.timeout:
        return "hang", "no progress before the per-run timeout"
    if res.deadlock:
        return "deadlock", "SimGrid reports a deadlock (some ranks never leave the collective)"
    text = ""
    for line in res.err.splitlines():
        m = re.search(r"\[(?:\w+)/CRITICAL\] (.*)", line)
        if m and "backtrace" not in m.group(1).lower():
            text = m.group(1).strip()
            break
    sig = ""
    if res.rc is not None and res.rc < 0:
        try:
            sig = signal.Signals(-res.rc).name
        except ValueError:
            sig = "SIG%d" % -res.rc
    elif res.rc:
        sig = "exit%d" % res.rc
    elif not res.complete:
        sig = "ranks-missing"
    if text and "Segmentation fault" not in text:
        # xbt_assert / xbt_die / uncaught exception: the message (numbers removed) is the failure kind
        return "crash:" + slug(text)[:48], text
    if sig in ("SIGSEGV", "SIGBUS", "SIGABRT", "SIGILL"):
        # invalid access or the allocator's own consistency abort: the symptom of one memory error varies, the class does not
        last = [l.strip() for l in res.err.splitlines() if l.strip()]
        return "crash:memory", "%s (%s)" % (sig, last[-1][:80] if last else "")
    return "crash:" + (sig or "abnormal"), sig


def np_class(n):
    if n <= 2:
        return "np=%d" % n
    if n & (n - 1) == 0:
        return "np=pow2"
    return "np=odd" if n % 2 else "np=even"


def count_class(c, n):
    if c == 0:
        return "count=0"
    if c >= 1000:
        return "count=1000"
    return "count<np" if c < n else "count>=np"


def case_key(coll, algo, layout, c, kind):
    """coll/algo + failure kind + class of the smallest failing case (one key per algorithm and failure kind)."""
    parts = ["%s/%s" % (coll, algo), kind, np_class(c["np"])]
    if coll.lstrip("i") != "barrier" and coll != "barrier":
        parts.append(count_class(c["count"], c["np"]))
    base = coll[1:] if coll.startswith("i") and coll[1:] in ROOTED else coll
    if base in ROOTED:
        parts.append("root=0" if c["root"] == 0 else "root>0")
    key = " ".join(parts)
    if layout != "flat":
        key += " layout=" + layout
    return key


def describe(c, layout):
    return "np=%d root=%d count=%d type=%s op=%s var=%d layout=%s" % (c["np"], c["root"], c["count"], TYS[c["ty"]],
                                                                     OPS[c["op"]], c["var"], layout)


def subtract(ranges, lo_from, culprit):
    """ranges restricted to ids >= lo_from, without culprit."""
    out = []
    for a, b in ranges:
        a = max(a, lo_from)
        if a >= b:
            continue
        if a <= culprit < b:
            if a < culprit:
                out.append((a, culprit))
            if culprit + 1 < b:
                out.append((culprit + 1, b))
        else:
            out.append((a, b))
    return out


def in_ranges(ranges, i):
    return any(a <= i < b for a, b in ranges)


def _compress(ids):
    out = []
    for i in ids:
        if out and out[-1][1] == i:
            out[-1][1] = i + 1
        else:
            out.append([i, i + 1])
    return [tuple(x) for x in out]


BAD_KINDS = ("overrun", "overrun-send", "sendbuf-modified", "gap-written")
CUT_AFTER = 3       # simulations a (collective, algorithm, layout, np class, count class) cell may kill the same way before it is cut short
SLICE_S = 4.0       # a worker gives the rest of a crash-heavy piece back to the pool after this long


def timeout_for(ncases, algo, grid="t"):
    """Generous (the machine is shared): only a genuine hang ever waits this long; deadlocks are reported by SimGrid at once.
    The quick grid is small enough for a flat 30 s; "automatic" (every algorithm in turn) gets at most 400 s more."""
    if grid == "q":
        return 30.0
    base = 30.0 + 0.1 * ncases
    return base + (min(2.4 * ncases, 400.0) if algo == "automatic" else 0.0)


def bad_kind(b):
    return b["kind"] if b["kind"] in BAD_KINDS else "wrong"


def bad_text(b):
    return "rank %s idx %s got %s expected %s (%s)" % (b["rank"], b["idx"], b["got"], b["exp"], b["kind"])


def run_piece(task):
    """Runs the case ids in task['ranges'] of one (collective, algorithm, layout); every time the simulation dies the
    case in progress is recorded and the run resumes after it. Gives back what is left after SLICE_S seconds."""
    binary, d, coll, algo, layout, grid, ranges, cells, minsize, crashes0 = task      # cells[id] = (np class, count class)
    t0 = time.time()
    tag = "%s-%s-%s-%d" % (coll, algo, layout, os.getpid())
    out = {"coll": coll, "algo": algo, "layout": layout, "runs": 0, "failures": [], "refused": [], "errcodes": [],
           "completed": 0, "rest": [], "cut": [], "minsize": minsize}
    pending = list(ranges)
    crashes = dict(crashes0)     # (np class, count class, kind) -> simulations killed by a case of that cell (whole shard)
    out["crashes"] = crashes
    size0 = sum(b - a for a, b in pending)

    def go(rg, to):
        out["runs"] += 1
        # always the full world of the grid: some algorithms look beyond the communicator (hosts, world ranks), so
        # a case must see the same world in a batch and when it is re-run alone
        return run_ranges(binary, d, coll, algo, layout, grid, rg, to, tag, minsize=out["minsize"])

    def upto(cid):
        """the ranges of the current simulation up to and including cid: the context a sequence-dependent failure needs"""
        return [(a, min(b, cid + 1)) for a, b in pending if a <= cid]

    def harvest(res, limit):
        for cid, b in res.bad.items():
            if cid < limit and in_ranges(pending, cid):
                out["failures"].append((cid, bad_kind(b), bad_text(b), upto(cid)))
        for cid, e in res.errcode.items():
            if cid < limit and in_ranges(pending, cid):
                out["errcodes"].append((cid, "MPI error class %s" % e.get("class")))
        for cid, m in res.refused.items():
            if cid < limit and in_ranges(pending, cid):
                out["refused"].append((cid, m))

    def cut_cell(culprit, kind):
        nonlocal pending
        cell = cells[culprit]
        n = crashes[cell + (kind,)] = crashes.get(cell + (kind,), 0) + 1
        if n >= threshold(kind):
            # every further case of this (np, count) cell would cost one more dead simulation: the cell is a
            # recorded failure already, its remaining cases are reported as not run
            # (a genuine hang costs a full timeout per simulation: it ends this piece of the shard altogether)
            whole = kind.startswith("hang")
            drop = [i for a, b in pending for i in range(a, b) if whole or cells[i] == cell]
            if drop:
                pending = _compress([i for a, b in pending for i in range(a, b) if not whole and cells[i] != cell])
                out["cut"].append((cell[0], cell[1], kind, len(drop)))

    def threshold(kind):
        return 1 if kind.startswith("hang") else CUT_AFTER

    for (c0, c1, kind), n in sorted(crashes.items()):      # cells another piece of this shard has already cut
        if n >= threshold(kind):
            drop = [i for a, b in pending for i in range(a, b) if cells[i] == (c0, c1)]
            if drop:
                pending = _compress([i for a, b in pending for i in range(a, b) if cells[i] != (c0, c1)])
                out["cut"].append((c0, c1, kind, len(drop)))

    guard, slow = 0, 1
    while pending:
        if out["runs"] and time.time() - t0 > SLICE_S:
            out["rest"] = pending
            break
        guard += 1
        if guard > size0 + 10:
            raise common_exit2("C29: driver does not make progress on %s/%s (exit 2)" % (coll, algo))
        size = sum(b - a for a, b in pending)
        res = go(pending, slow * timeout_for(size, algo, grid))
        if os.environ.get("C29_DEBUG"):
            common.log("run", coll, algo, layout, pending, "complete", res.complete, "inprog", res.inprog, "rc", res.rc,
                       "done", res.done, classify(res) if not res.complete else "")
        if res.complete:
            harvest(res, 1 << 30)
            pending = []
            break
        if not res.inprog and res.timeout and slow < 27:
            slow *= 3          # timed out between two cases: most likely a slow machine, try again with more time
            continue
        if not res.inprog:
            # died outside any case (setup, between cases, finalize): shortest failing prefix by bisection
            ids = [i for a, b in pending for i in range(a, b)]
            r0 = go([(0, 0)], 30.0)
            if not r0.complete and out["minsize"] == 1:
                # creating the communicators dies with this algorithm selected. If only the 1-rank communicator is the
                # problem, the cases with np=1 are that failure and the rest of the shard runs without that communicator
                kind, text = classify(r0)
                out["minsize"] = 2
                if go([(0, 0)], 30.0).complete:
                    ones = [i for i in ids if cells[i][0] == "np=1"]
                    out["failures"] += [(i, kind + ":comm-creation", text, [(i, i + 1)]) for i in ones]
                    pending = _compress([i for i in ids if cells[i][0] != "np=1"])
                    continue
                out["minsize"] = 1
            if not r0.complete:   # the algorithm breaks communicator creation / finalisation with no case at all
                kind, text = classify(r0)
                out["failures"].append((ids[0], kind + ":setup", text, [(ids[0], ids[0] + 1)]))
                out["setup_failure"] = sum(b - a for a, b in pending)
                pending = []
                break
            lo, hi = 0, len(ids)          # invariant: prefix ids[:hi] fails, ids[:lo] passes
            suspect = next((c for c in res.last[:2] if c in ids and not go([(c, c + 1)], 60.0).complete), None)
            if suspect is not None:       # usual suspect: the case some rank started last fails alone in the same way
                lo, hi = ids.index(suspect), ids.index(suspect) + 1
            elif len(ids) > 1 and not go([(ids[0], ids[0] + 1)], 60.0).complete:
                hi = 1                    # or creating the communicator of the first case
            while hi - lo > 1:
                mid = (lo + hi) // 2
                if go(_compress(ids[:mid]), timeout_for(mid, algo)).complete:
                    lo = mid
                else:
                    hi = mid
            culprit = ids[hi - 1]
            kind, text = classify(res)
            out["failures"].append((culprit, kind + ":outside-case", text, upto(culprit)))
            pending = subtract(pending, ids[0], culprit)
            cut_cell(culprit, kind + ":outside-case")
            continue
        limit = res.inprog[0]
        harvest(res, limit)
        kind, text = classify(res)
        if kind == "hang":
            # a timeout is a hang only if a case in progress also hangs alone; otherwise the machine was just slow
            alone = {cid: go([(cid, cid + 1)], 30.0 if grid == "q" else 60.0) for cid in res.inprog}
            if all(r.complete for r in alone.values()):
                slow *= 3
                if slow > 30:
                    raise common_exit2("C29: %s/%s times out in a batch but never alone (exit 2)" % (coll, algo))
                pending = subtract(pending, limit, -1)
                continue
        culprit = None
        if len(res.inprog) == 1:
            culprit = res.inprog[0]
        else:
            for cid in res.inprog:
                r1 = go([(cid, cid + 1)], 30.0)
                if not r1.complete:
                    culprit, (kind, text) = cid, classify(r1)
                    break
            if culprit is None:
                culprit = res.inprog[0]
        if kind == "refused":
            out["refused"].append((culprit, text))
        else:
            out["failures"].append((culprit, kind, text, upto(culprit)))
        pending = subtract(pending, limit, culprit)
        if kind != "refused":
            cut_cell(culprit, kind)
    out["completed"] = size0 - sum(b - a for a, b in out["rest"]) - sum(c[3] for c in out["cut"])
    out["wall"] = round(time.time() - t0, 2)
    return out


def confirm(task):
    """Rule 3: the smallest case of a failure class is re-run alone, twice, and must fail identically both times."""
    binary, d, coll, algo, layout, grid, cids, batch_kind, nps, minsize, context = task
    tag = "cf-%s-%s-%s-%d" % (coll, algo, layout, os.getpid())
    tried = []
    for cid in cids:
        got = []
        for _ in range(2):
            r = run_ranges(binary, d, coll, algo, layout, grid, [(cid, cid + 1)], 30.0 if grid == "q" else 120.0, tag, minsize=1 if nps[cid] == 1 else minsize)
            if not r.complete:
                k, t = classify(r)
            elif cid in r.bad:
                k, t = bad_kind(r.bad[cid]), bad_text(r.bad[cid])
            else:
                k, t = "ok", ""
            got.append((k, t))
        tried.append((cid, [g[0] for g in got]))
        if got[0][0] == got[1][0] and got[0][0] not in ("ok", "refused"):
            return {"ok": True, "cid": cid, "kind": got[0][0], "text": got[0][1], "tried": tried,
                    "minsize": 1 if nps[cid] == 1 else minsize}
        if got[0][0] != got[1][0]:
            return {"ok": False, "tried": tried}
    # not reproducible alone: a failure that needs the library state left by the preceding cases of its simulation.
    # Re-run that sequence, twice; it must fail at the same case in the same way.
    cid = cids[0]
    got = []
    for _ in range(2):
        r = run_ranges(binary, d, coll, algo, layout, grid, context, timeout_for(sum(b - a for a, b in context), algo), tag,
                       minsize=minsize)
        if cid in r.bad and (r.complete or not r.inprog or cid < r.inprog[0]):
            k, t = bad_kind(r.bad[cid]), bad_text(r.bad[cid])
        elif not r.complete and (cid in r.inprog or (not r.inprog and cid in r.last[:1])):
            k, t = classify(r)
        else:
            k, t = "ok", ""
        got.append((k, t))
    tried.append((cid, ["in-sequence:" + g[0] for g in got]))
    if got[0][0] == got[1][0] and got[0][0] not in ("ok", "refused"):
        return {"ok": True, "cid": cid, "kind": got[0][0] + ":after-other-cases", "text": got[0][1], "tried": tried,
                "minsize": minsize, "ranges": context}
    return {"ok": False, "tried": tried}


def shard_list(algos):
    shards = []
    for coll in SELECTABLE:
        for a in algos.get(coll, []):
            shards.append((coll, a))
    for coll in SINGLE + NONBLOCKING:
        shards.append((coll, "-"))
    return shards


def run(ctx):
    binary = build()
    d = common.tmpdir("c29")
    try:
        _run(ctx, binary, d)
    finally:
        shutil.rmtree(d, ignore_errors=True)


def _list_one(a):
    return list_cases(*a)


def split_rest(rest, cases):
    """Pieces of the leftover ranges: one per communicator size; a single size is cut in four."""
    pieces = {}
    for a, b in rest:
        for i in range(a, b):
            pieces.setdefault(cases[i]["np"], []).append(i)
    if len(pieces) > 1:
        return [_compress(v) for _, v in sorted(pieces.items())]
    ids = next(iter(pieces.values()))
    q = max(1, (len(ids) + 3) // 4)
    return [_compress(ids[i:i + q]) for i in range(0, len(ids), q)]


def _run(ctx, binary, d):
    import concurrent.futures as cf
    setup_dir(d)
    grid = "q" if ctx.quick else "t"
    algos = algorithms()
    missing = [c for c in SELECTABLE if c not in algos]
    if missing or sum(len(v) for v in algos.values()) < 50:
        raise common_exit2("C29: could not list the algorithms of %s from --help-coll (exit 2)" % missing)
    unknown = [c for c in algos if c not in SELECTABLE]
    if unknown:
        raise common_exit2("C29: library lists collectives the interpreter does not know: %s (exit 2)" % unknown)
    shards = [(c, a, l) for c, a in shard_list(algos) for l in LAYOUTS]
    colls = sorted(set(s[0] for s in shards))
    case_lists = dict(zip(colls, common.pmap(_list_one, [(binary, d, c, grid) for c in colls])))
    # cell of a case = the granularity of the case key: (np class, count class)
    cells = {c: [(np_class(x["np"]), count_class(x["count"], x["np"])) for x in cl] for c, cl in case_lists.items()}
    cost = lambda s: len(case_lists[s[0]]) * (25 if s[1] == "automatic" else 1)
    # largest first (makespan), the "automatic" pseudo-algorithms (they run every other algorithm in turn) last
    # and, before everything, the algorithms without a known finding: that is where a failure would be news, and the
    # known-bad ones are the expensive ones (every dead simulation is restarted)
    bad = set(k.split(" ", 1)[0] for k, _ in common.load_known(ctx.prop)[0])
    order = sorted(shards, key=lambda s: ("%s/%s" % (s[0], s[1]) not in bad, s[1] != "automatic", cost(s)), reverse=True)
    if ctx.seed:
        random.Random(ctx.seed).shuffle(order)
    end = ctx.deadline.end - (15 if ctx.quick else 90)      # keep time for the confirmations and the report
    hard_end = ctx.deadline.end + (60 if ctx.quick else 300)
    acc = {s: {"pieces": [], "open": 0, "started": False} for s in shards}
    with cf.ProcessPoolExecutor(max_workers=common.NCPU) as ex:
        todo = list(order)
        running = {}

        def submit(shard, ranges, minsize=1):
            coll, algo, layout = shard
            f = ex.submit(run_piece, (binary, d, coll, algo, layout, grid, ranges, cells[coll], minsize,
                                      dict(acc[shard].get("crashes", {}))))
            running[f] = shard
            acc[shard]["open"] += 1
            acc[shard]["started"] = True

        while todo or running:
            while todo and len(running) < 2 * common.NCPU and time.time() < end:
                s = todo.pop(0)
                submit(s, [(0, len(case_lists[s[0]]))])
            if time.time() >= end:
                todo = []                # shards not started stay not started (reported as such)
            if not running:
                break
            donef, _ = cf.wait(list(running), return_when=cf.FIRST_COMPLETED)
            for f in donef:
                shard = running.pop(f)
                r = f.result()
                acc[shard]["open"] -= 1
                acc[shard]["pieces"].append(r)
                cr = acc[shard].setdefault("crashes", {})
                for k, n in r["crashes"].items():
                    cr[k] = max(cr.get(k, 0), n)
                if r["rest"]:
                    if time.time() > hard_end:
                        acc[shard]["abandoned"] = True
                    else:
                        for piece in split_rest(r["rest"], case_lists[shard[0]]):
                            submit(shard, piece, r["minsize"])
        # ---- phase 2: one representative per (collective, algorithm, failure kind), confirmed alone twice
        groups = {}
        for shard in shards:          # flat before smp4 by construction of the list
            a = acc[shard]
            if not a["started"]:     # (an abandoned shard is not counted as completed, but what it already showed is reported)
                continue
            coll, algo, layout = shard
            fl = sorted(x for p in a["pieces"] for x in p["failures"])
            for cid, kind, text, context in fl:
                g = groups.setdefault((coll, algo, kind), {"layout": layout, "cases": [], "text": text, "n": 0, "other": 0,
                                                           "context": context,
                                                           "minsize": max(p["minsize"] for p in a["pieces"])})
                if g["layout"] == layout:
                    g["cases"].append(cid)
                else:
                    g["other"] += 1
        keys = list(groups)
        conf = list(ex.map(confirm, [(binary, d, k[0], k[1], groups[k]["layout"], grid, groups[k]["cases"][:3], k[2],
                                      {c: case_lists[k[0]][c]["np"] for c in groups[k]["cases"][:3]}, groups[k]["minsize"], groups[k]["context"]) for k in keys]))
    summarize(ctx, acc, shards, case_lists, grid, algos, groups, dict(zip(keys, conf)))


def summarize(ctx, acc, shards, case_lists, grid, algos, groups, conf):
    evaluations = nontrivial = runs = done = not_started = cut_cases = cut_cells = blocked = 0
    refused_tab, err_tab, per_coll, slow = {}, {}, {}, []
    for shard in shards:
        a = acc[shard]
        coll, algo, layout = shard
        if not a["started"] or a.get("abandoned"):
            not_started += 1
            continue
        done += 1
        cases = case_lists[coll]
        excluded = {}
        for p in a["pieces"]:
            runs += p["runs"]
            for cid, m in p["refused"]:
                excluded[cid] = ("r", m)
            for cid, m in p["errcodes"]:
                excluded[cid] = ("e", m)
        ncut = sum(c[3] for p in a["pieces"] for c in p["cut"])
        cut_cases += ncut
        cut_cells += sum(len(p["cut"]) for p in a["pieces"])
        nblocked = sum(p.get("setup_failure", 0) for p in a["pieces"])    # nothing runs at all with this algorithm selected
        blocked += nblocked
        covered = sum(p["completed"] for p in a["pieces"]) + ncut
        ncut += nblocked
        if covered != len(cases):
            raise common_exit2("C29: shard %s covered %d of %d cases (driver bug, exit 2)" % (shard, covered, len(cases)))
        evaluations += len(cases) - ncut
        # conservative: the cut cases of a shard are subtracted from its non-trivial count as if all were non-trivial
        nontrivial += max(0, sum(1 for c in cases if c["nontrivial"] and c["id"] not in excluded) - ncut)
        failed = set(x[0] for p in a["pieces"] for x in p["failures"])
        pc = per_coll.setdefault(coll, {"shards": 0, "cases": 0, "failed": 0, "refused": 0})
        pc["shards"] += 1
        pc["cases"] += len(cases)
        pc["failed"] += len(failed)
        pc["refused"] += len(excluded)
        slow.append((round(sum(p["wall"] for p in a["pieces"]), 1), "%s/%s/%s" % shard))
        for cid, (t, m) in excluded.items():
            tab = refused_tab if t == "r" else err_tab
            k = "%s/%s %s: %s" % (coll, algo, layout, m)
            tab[k] = tab.get(k, 0) + 1
    violations, unstable, merged = [], [], {}
    for (coll, algo, bkind), g in sorted(groups.items()):
        c = conf[(coll, algo, bkind)]
        if not c["ok"]:
            unstable.append({"shard": "%s/%s/%s" % (coll, algo, g["layout"]), "batch_kind": bkind, "cases": g["cases"][:5],
                             "alone": c["tried"], "text": g["text"][:200]})
            continue
        # one failure class per (collective, algorithm, kind confirmed alone): several batch symptoms may map to it
        m = merged.setdefault((coll, algo, c["kind"]), {"n": 0, "other": 0, "rep": None})
        m["n"] += len(g["cases"])
        m["other"] += g["other"]
        rank = (LAYOUTS.index(g["layout"]), c["cid"])
        if m["rep"] is None or rank < m["rep"][0]:
            m["rep"] = (rank, g, c)
    for (coll, algo, kind), m in sorted(merged.items()):
        _, g, c = m["rep"]
        case = case_lists[coll][c["cid"]]
        key = case_key(coll, algo, g["layout"], case, kind)
        what = "%s: %d case%s of the %s grid%s; smallest: %s -> %s" % (
            kind, m["n"], "" if m["n"] == 1 else "s", ctx.tier,
            (" (+%d with the other layout)" % m["other"]) if m["other"] else "", describe(case, g["layout"]), c["text"][:300])
        violations.append(Violation(key, what, {"coll": coll, "algo": algo, "layout": g["layout"], "grid": grid, "id": c["cid"],
                                                "params": case, "kind": kind, "minsize": c["minsize"],
                                                "ranges": c.get("ranges") or [(c["cid"], c["cid"] + 1)]}))
    if unstable:
        for u in unstable[:20]:
            common.log("C29: failure does not reproduce identically when its case is re-run alone:", json.dumps(u))
        raise SystemExit(2)
    known = set(k for k, _ in common.load_known(ctx.prop)[0])
    for v in violations:      # common.finish writes replay files for the first 20 new ones only: list them all here
        if v.key not in known:
            common.log("C29 new failure class: known: property=C29 %s :: %s" % (v.key, v.what))
    slow.sort(reverse=True)
    samples = []
    for coll in ("allreduce", "bcast", "alltoallv"):
        cl = case_lists.get(coll)
        if cl:
            samples.append("%s/%s %s" % (coll, algos[coll][1], describe(cl[len(cl) // 2], "flat")))
    coverage = {
        "evaluations": evaluations, "distinct_nontrivial": nontrivial,
        "rule": "one evaluation = one (collective, algorithm, layout, np, root, count, type, op, variant) call checked on every rank "
                "against the sequential reference; non-trivial = np>=2 and count>=1 (barrier: np>=2), i.e. the result of some rank "
                "depends on another rank's data, and the algorithm did not refuse the case",
        "samples": samples, "exhaustive": not_started == 0 and cut_cases == 0,
        "exhaustive_outside_cut_cells": not_started == 0,
        "cases_not_run_because_mpi_setup_itself_fails_with_the_algorithm": blocked,
        "cells_cut_short": cut_cells, "cases_not_run_in_cut_cells": cut_cases,
        "cut_rule": "(a confirmed hang ends its piece of the shard) a (collective, algorithm, layout, np class, count class) cell - the granularity of the case key - whose cases killed %d simulations the same way (1 for a hang) is a "
                    "recorded failure; its remaining cases (other types/ops/roots/variants) are not run" % CUT_AFTER,
        "grid": "quick: np{1,2,3,4,5,8} roots{0,np-1} counts{0,1,np+1}" if ctx.quick else
                "thorough: np 1..17, all roots, counts{0,1,2,np-1,np,np+1,1000}",
        "types_ops": "int:{SUM,PROD,MAX,MIN,MAXLOC(2INT),BXOR,user} double:{SUM,PROD,MAX,MIN,MAXLOC(DOUBLE_INT),user} contiguous(2,int):{user}",
        "variants": "v-collectives: regular counts / irregular counts with 1-element gaps; barrier: 3 arrival patterns",
        "layouts": LAYOUTS, "algorithms": sum(len(v) for v in algos.values()),
        "single_implementation_collectives": SINGLE + NONBLOCKING,
        "shards_completed": done, "shards_total": len(shards), "simulations_run": runs,
        "cases_refused_with_message": sum(refused_tab.values()), "refusals": refused_tab,
        "cases_refused_with_error_code": sum(err_tab.values()), "error_codes": err_tab,
        "failing_cases": sum(pc["failed"] for pc in per_coll.values()), "failure_classes": len(violations),
        "per_collective": per_coll, "slowest_shards": slow[:5]}
    if nontrivial < 2:
        common.log("C29: vacuous run")
        raise SystemExit(2)
    assumptions = ["the interpreter's sequential reference (pure value function, left fold in rank order) is the MPI result; "
                   "inputs are small integers so that double sums/products are exact in any association order",
                   "smpimain is invoked directly with the options smpirun generates (hostfile, network model) but smpi/privatization:no "
                   "(the interpreter has no mutable global) and a world of 8 (quick) / 17 (thorough) ranks; "
                   "glibc's checking allocator (MALLOC_CHECK_=3) is preloaded so that heap overruns abort where they happen",
                   "a std::invalid_argument refusal or an MPI error code returned by the call is 'not selectable', not a violation",
                   "receive buffers that MPI calls 'not significant' (non-root) are not inspected; user op is commutative+associative",
                   "cases are separated by a hand-written point-to-point barrier; skewed arrival patterns are not enumerated"]
    common.finish(ctx, "exploration", coverage, assumptions, violations, engine=ENGINE)


def replay(ctx, case):
    binary = build()
    d = common.tmpdir("c29r")
    try:
        setup_dir(d)
        c = case["case"]
        tag = "replay-%d" % os.getpid()
        ranges = [tuple(r) for r in c.get("ranges") or [(c["id"], c["id"] + 1)]]
        res = run_ranges(binary, d, c["coll"], c["algo"], c["layout"], c["grid"], ranges,
                         timeout_for(sum(b - a for a, b in ranges), c["algo"]), tag, minsize=c.get("minsize", 1))
        print("case: %s/%s %s" % (c["coll"], c["algo"], describe(c["params"], c["layout"])))
        print("equivalent: smpirun -np %d -platform plat.xml -hostfile hf_%s %s --cfg=smpi/simulate-computation:no ./c29coll %s %s run <scorefile> sizes=%d-%d %s" % (
            world(c["grid"]), c["layout"], "" if c["algo"] == "-" else "--cfg=smpi/%s:%s" % (c["coll"], c["algo"]), c["coll"], c["grid"],
            c.get("minsize", 1), world(c["grid"]), " ".join("%d:%d" % r for r in ranges)))
        if res.complete and c["id"] not in res.bad:
            print("observed: completed, buffers equal the reference on every rank")
            return 0
        if c["id"] in res.bad:
            print("observed: BAD", res.bad[c["id"]])
        if res.complete:
            pass
        else:
            print("observed:", classify(res))
            print(res.err[-1500:])
        return 1
    finally:
        shutil.rmtree(d, ignore_errors=True)
