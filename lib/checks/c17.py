"""C17 — selective (lazy) solving equals full recomputation (maxmin).  Engine E5 lmmx, level model_checking.

Every history of modifications (new activity + its expands, free, set bound, set penalty 0/>0, set constraint bound, solve)
up to a length bound is applied to THREE real lmm::System objects: maxmin with selective update (the system under test),
maxmin without it (same history), and, at every solve, a fresh system rebuilt from the current activities and solved from
scratch.  The statement is lazy == fresh; the middle system only classifies a difference."""
import itertools
import common, lmm_common as L

PROP = "C17"
# pre-loaded start: v0 enabled on c0,c1 (weight 1), v1 created suspended on c0,c1, everything solved once
PRELOAD2 = "N:1:0:1;X:0:1:1;N:0:0:1;X:1:1:1;S"
# second pre-load: v0 on c0; v1 enabled on c0,c1, created while both were already flagged (so it was never visited: stamp 0)
PRELOAD2B = "N:1:0:1;CB:1:1;N:1:0:1;X:1:1:1;S"
PRELOAD3 = "N:1:0:1;X:0:1:1;N:0:1:1;X:1:2:1;S"


def shards(quick):
    out = []
    b2, b3 = (4, 3) if quick else (5, 4)
    def add(fam, prio, base, **kw):
        out.append(dict(L.shard("c17", **kw), fam=fam, prio=prio, base=base))
    pols2 = ["SS", "SF", "FS", "FF"]
    lims2 = [(-1, -1), (1, -1), (-1, 1), (1, 1)] if quick else [(-1, -1), (1, -1), (-1, 1), (1, 1), (2, 1), (1, 2), (2, 2)]
    for pol in pols2:
        for lim in lims2:
            add("2 constraints, empty start", 2, b2, nc=2, pol=pol, lim=lim, V=3, start=0)
            add("2 constraints, empty start, counter near wrap", 3, b2, nc=2, pol=pol, lim=lim, V=3, start=1)
    for pol in pols2:
        for lim in ([(-1, -1), (1, 1)] if quick else [(-1, -1), (1, 1), (2, 1), (1, -1)]):
            for start in (0, 2, 3):
                add("2 constraints, pre-loaded with 2 variables (plain / stale stamps near and at the wrap)", 1, b2,
                    nc=2, pol=pol, lim=lim, V=3, start=start, prefix=PRELOAD2)
        for start in (0, 3):
            add("2 constraints, pre-loaded with 2 variables (plain / stale stamps near and at the wrap)", 1, b2,
                nc=2, pol=pol, lim=(-1, -1), V=3, start=start, prefix=PRELOAD2B)
    for pol in (["SSS", "SFS"] if quick else ["SSS", "SFS", "FSS", "SSF", "FFF"]):
        for lim in ([(-1, -1, -1), (1, -1, 1)] if quick else [(-1, -1, -1), (1, -1, 1), (-1, 1, -1), (2, 1, 2)]):
            add("3 constraints, empty and pre-loaded start", 4, b3, nc=3, pol=pol, lim=lim, V=3, start=0)
            add("3 constraints, empty and pre-loaded start", 4, b3, nc=3, pol=pol, lim=lim, V=3, start=2, prefix=PRELOAD3)
    if not quick:
        for pol in pols2:   # weights 0 and 2, penalty 2 at creation, third bound values
            add("2 constraints, rich value alphabet", 5, b3, nc=2, pol=pol, lim=(-1, -1), V=3, pnew=(0, 1, 2),
                wnew=(0, 0.5, 1, 2), wx=(0, 0.5, 1, 2), bv=(-1, 0.5, 1.5), bc=(1, 2, 3))
        for pol in ("SS", "SF"):
            for lim in [(-1, -1), (1, 1)]:
                add("2 constraints, 4 variable slots", 6, b3, nc=2, pol=pol, lim=lim, V=4)
    return out


def run(ctx):
    shs = shards(ctx.quick)
    shs, res, stages, complete = L.explore(ctx, shs, increments=1 if ctx.quick else 2, reserve=60 if ctx.quick else 60)
    if any(r is None for r in res):
        common.log("C17: not even the first bound completed")
        raise SystemExit(2)
    classes, unjudged, stats = L.collect(PROP, shs, res)
    viols = L.confirm(PROP, classes)
    nontrivial = stats.get("solves_on_a_strict_subset_of_the_active_constraints", 0)
    if stats.get("solves_compared", 0) < 2 or nontrivial < 2:
        common.log("C17: vacuous run (%s)" % stats)
        raise SystemExit(2)
    samples = [{"shard": L.shard_name(sh), "history": h} for sh, r in list(zip(shs, res))[:6] for h in r["samples"][-2:]]
    cov = {
        "states": sum(r["states"] for r in res),
        "transitions": sum(r["transitions"] for r in res),
        "reference_evaluations": sum(r["oracle_evaluations"] for r in res),
        "traces_validated_against_impl": sum(r["transitions"] for r in res),
        "samples": samples,
        "exhaustive": bool(complete),
        "history_length_completed_per_family": L.depths_by_family(shs, res),
        "shards": len(shs),
        "stages": stages,
        "solves_compared_lazy_full_fresh": stats.get("solves_compared", 0),
        "solves_where_lazy_skipped_part_of_the_system": nontrivial,
        "solves_across_the_counter_wrap": stats.get("solves_across_the_counter_wrap", 0),
        "full_differs_from_fresh_while_lazy_agrees": stats.get("full_recomputation_differs_from_fresh_while_lazy_agrees", 0),
        "violating_transitions": {k: c["count"] for k, c in classes.items()},
        "unjudged_outcomes": L.note_unjudged(unjudged),
        "alphabet": "N:p:c:w new variable (penalty p) expanded on constraint c with weight w; X:v:c:w further expand of the "
                    "variable being created; F:v free; VB:v:b variable bound; SP:v:p penalty (0 suspends); CB:c:b "
                    "constraint bound; S solve",
    }
    assumptions = [
        "values: penalties {0,1,2}, weights {0.5,1} (thorough adds 0 and 2 on some shards), variable bounds {-1,0.5(,1.5)}, "
        "constraint bounds {1,2(,3)}, <=3 constraints (SHARED/FATPIPE, limit -1/1/2), <=3 (4) live variables",
        "expand() is only applied to a variable while it is being created (no in-tree caller expands an already solved "
        "variable; the statement lists adding/freeing, bounds, penalties, capacities, suspend/resume)",
        "states are de-duplicated on a 128-bit digest of a fingerprint of all fields later operations can read (list "
        "orders, modified set, visited stamps relative to the counter, scratch fields); concurrency_maximum_ is left out",
        "rates compared with relative tolerance 1e-9",
        "start states 'counter-near-wrap*' / 'counter-at-wrap*' set visited_counter_ to UINT_MAX-1 / UINT_MAX directly instead "
        "of running 2^32 solves; with 'stale-stamps' the pre-loaded variables keep the stamps they got while the counter was "
        "1..2 (the state reached when those 2^32 solves concern other constraints). The value 0 is never preset: it is not "
        "reachable once the counter skips it",
        "the variable mallocator of each System is shrunk to 8 objects (performance only)",
        "the 'propagation-missed-by' part of a case key is a diagnosis computed by the harness, it never decides a verdict",
    ]
    common.finish(ctx, "model_checking", cov, assumptions, viols, engine=L.ENGINE)


def replay(ctx, case):
    return L.replay(ctx, case)
