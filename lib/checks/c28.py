"""C28 — MPI point-to-point matching and non-overtaking (engine E7 mpix, harness/mpix/c28/p2p.cpp, level model_checking).

The interpreter enumerates, bound by bound (ranks R, total number of operations N, at most 3 per rank), every program over
{Send, Isend+Wait, Ssend, Bsend, Recv, Irecv+Wait, Sendrecv, Probe, Iprobe} x tag {0,1,ANY} x source {each peer, ANY} x
size class {below async-small-thresh, between the thresholds, at/above send-is-detached-thresh} x receive capacity {big,
small}, in which every rank receives as many messages as are sent to it. A reference model of MPI matching (FIFO channel
per pair of ranks, posted-receive and unexpected-message queues, free arrival order between senders, standard sends
buffered or synchronous) explores all executions of the program: programs with a deadlocking execution or an unreceived
message are discarded, the others are run on SMPI with three byte-size assignments walking both thresholds, and the joint
observation (message identified by its payload, status source/tag/count, truncation error, probe results) must be one of
the model's terminal outcomes. This driver shards the enumeration, restarts a simulation that dies after the program in
progress (recorded through a crash-proof score file), and confirms every reported program alone, twice."""
import os, re, sys, json, time, struct, subprocess
import common, mpix
from common import Violation

ENGINE = "mpix"


def common_exit2(msg):
    """harness / driver problem: never a VIOLATION (exit code 2)"""
    common.log(msg)
    return SystemExit(2)
A, D = 16, 64
CFG = ["smpi/privatization:no", "smpi/async-small-thresh:%d" % A, "smpi/send-is-detached-thresh:%d" % D,
       "debug/stacktrace:none"]
# (R, N, shards): completed in this order; a bound is completed or not started
FULL, BASIC, SR = 0x1ff, 0x33, 0x11          # every operation / {Send, Isend, Recv, Irecv} / {Send, Recv}
# (R, N, shards, operations): completed in this order; a bound is completed or not started
BOUNDS = {"quick": [(2, 2, 1, FULL), (2, 4, 16, SR), (2, 3, 16, FULL), (2, 4, 32, BASIC), (2, 4, 256, FULL)],
          "thorough": [(2, 2, 1, FULL), (2, 4, 16, SR), (2, 3, 16, FULL), (2, 4, 32, BASIC), (3, 2, 4, FULL), (3, 3, 128, FULL), (3, 4, 256, BASIC),
                       (2, 5, 256, BASIC), (2, 4, 256, FULL), (2, 6, 2048, BASIC), (3, 4, 2048, FULL)]}


def bound_size(R, N, ops):
    """number of candidate programs of a bound (what the interpreter walks through)"""
    import itertools
    peers, srcs = R - 1, R
    per_type = [peers * 6] * 4 + [srcs * 6] * 2 + [peers * 6 * srcs * 3] + [srcs * 3] * 2
    alpha = sum(n for t, n in enumerate(per_type) if ops & (1 << t))
    dists = sum(1 for k in itertools.product(range(4), repeat=R) if sum(k) == N)
    return dists * alpha ** N


def bname(R, N, ops):
    return "R=%d N=%d %s" % (R, N, {FULL: "all-ops", BASIC: "send/isend/recv/irecv", SR: "send/recv"}[ops])
COUNTERS = ["generated", "balanced", "kept", "deadlocking", "leftover", "overflow", "runs", "multi", "states", "transitions",
            "truncs", "anysrc", "mixed", "outcomes", "violations", "skipped"]
SUMMED = [c for c in COUNTERS if c not in ("generated", "balanced")]
CUT_AFTER = 3
DESCR = {
    "overtaking": "a receive got a later message of a sender while an earlier message it accepts was still unreceived (MPI-3.1 3.5 non-overtaking)",
    "matching-not-allowed": "the joint matching observed is not reachable in the MPI matching model",
    "probe-status": "Probe/Iprobe reported a message that is not the first one it could match (or none allowed)",
    "status-source": "status.MPI_SOURCE is not the sender of the message received",
    "status-tag": "status.MPI_TAG is not the tag of the message received",
    "status-count": "MPI_Get_count differs from the size of the message received",
    "truncation-not-reported": "a message longer than the receive buffer was not reported as MPI_ERR_TRUNCATE",
    "error-on-fitting-message": "an error was returned for a message that fits the buffer",
    "payload-mixed": "the bytes received are not those of one message",
    "payload-unknown": "the bytes received belong to no message of the program",
    "wrote-beyond-buffer": "bytes were written beyond the receive buffer",
    "message-for-another-rank": "a rank received a message addressed to another rank",
    "receive-not-observed": "a receive returned without data",
    "deadlock": "SMPI deadlocks on a program that cannot deadlock under MPI semantics (whatever the buffering of standard sends)",
}


def binary():
    return mpix.build_smpi("c28p2p", ["c28/p2p.cpp"], cxx=True)


def launch(tmp, b, R, N, shard, nshards, extra, timeout=900, ops=FULL):
    timeout = max(20, timeout)
    extra = list(extra) + ["ops=%d" % ops]
    score = os.path.join(tmp, "score-%d-%d-%d-%d" % (R, N, shard, os.getpid()))
    with open(score, "wb") as f:
        f.write(b"\xff" * 4096)
    rc, out, err = mpix.smpirun(tmp, b, R, args=[R, N, shard, nshards, "score=" + score, "A=%d" % A, "D=%d" % D] + extra,
                                cfg=CFG, timeout=timeout)
    raw = open(score, "rb").read(8 * 32)
    os.unlink(score)
    vals = struct.unpack("32q", raw)
    return rc, out, err, vals


def od_arg(vals):
    """the odometer position of the program in progress, as the interpreter's od= argument"""
    n = vals[19]
    return "od=%d:%d:%s" % (vals[18], vals[0], ",".join(str(vals[20 + j]) for j in range(n)))


def parse(out):
    vs, n, p = [], None, None
    for line in out.splitlines():
        if line.startswith("V "):
            m = re.match(r"V kind=(\S+) index=(\d+) variant=(\d+) prog=(\S+) obs=(\S*) allowed=(\d+)", line)
            if m:
                vs.append({"kind": m.group(1), "index": int(m.group(2)), "variant": int(m.group(3)), "prog": m.group(4),
                           "obs": m.group(5), "allowed": int(m.group(6))})
        elif line.startswith("N "):
            n = {k: int(v) for k, v in (kv.split("=") for kv in line.split()[1:])}
            n["kept"] = n.pop("mine_kept")
        elif line.startswith("P "):
            m = re.match(r"P index=(\d+) class=(\d+) prog=(\S+)", line)
            p = {"index": int(m.group(1)), "class": int(m.group(2)), "prog": m.group(3)}
        elif line.startswith("HARNESS-ERROR"):
            raise common_exit2("C28: " + line + " (exit 2)")
    return vs, n, p


def death_kind(rc, err):
    if "Deadlock detected" in err:
        return "deadlock"
    if rc == 124:
        return "hang"
    m = re.search(r"/CRITICAL\] (.*)", err)
    if m:
        return "crash:" + re.sub(r"[^A-Za-z0-9_=<>-]+", "-", re.sub(r"\d+", "N", m.group(1)))[:48].strip("-")
    return "crash:exit%s" % rc


def alone(tmp, b, R, N, prog, variant, od=None, index=None, ops=FULL):
    """Runs one program with one size assignment in a simulation of its own. prog: its text, or None with od= (the
    odometer position recorded by a simulation that died). Returns the violation record, or None if all is fine."""
    if prog == "-":        # no program at all: does the frame (init, barrier, finalize) survive?
        rc, out, err, vals = launch(tmp, b, R, 1, 0, 1, ["skipclass=7", "ops=0"], timeout=120)
        return None if vals[0] == -2 else {"kind": death_kind(rc, err) + ":between-programs", "variant": 0, "prog": "-", "obs": ""}
    extra = ["prog=" + prog] if prog else [od, "only=%d" % index]
    rc, out, err, vals = launch(tmp, b, R, N, 0, 1, extra + ["onlyvar=%d" % variant], timeout=120, ops=ops)
    vs, n, p = parse(out)
    if p is None:
        raise common_exit2("C28: cannot re-run a program alone: rc=%s %s %s (exit 2)" % (rc, out[-300:], err[-300:]))
    if vals[0] != -2:      # died
        return {"kind": death_kind(rc, err), "variant": variant, "prog": p["prog"], "obs": "", "class": p["class"]}
    for v in vs:
        if v["variant"] == variant:
            v["class"] = p["class"]
            return v
    return None


def run_shard(task):
    tmp, b, R, N, shard, nshards, end, ops = task
    if time.time() > end:
        return None
    tot = dict.fromkeys(COUNTERS, 0)
    viol, deaths, sims = [], [], 0
    resume, skipclass, class_deaths = [], 0, {1: 0, 2: 0, 4: 0}
    while True:
        rc, out, err, vals = launch(tmp, b, R, N, shard, nshards, ["skipclass=%d" % skipclass] + resume, timeout=end + 15 - time.time(), ops=ops)
        sims += 1
        if rc == 124 or time.time() > end + 30:
            return None                    # out of time: the bound is not completed
        vs, n, _ = parse(out)
        viol += vs
        if vals[0] == -2 and n is not None:
            for c in COUNTERS:
                tot[c] += n[c]
            break
        if vals[0] < 0:
            # died while no program was running (MPI_Init, the separating barrier, MPI_Finalize): point-to-point itself is
            # broken; reported as such, nothing else of this bound can be said
            return {"R": R, "N": N, "shard": shard, "tot": tot, "sims": sims, "skipclass": skipclass, "viol": viol + deaths,
                    "fatal": {"kind": death_kind(rc, err) + ":between-programs", "variant": 0, "prog": "-", "obs": "", "index": -1}}
        for i, c in enumerate(COUNTERS):
            tot[c] += vals[2 + i]
        index, variant = vals[0], vals[1]
        d = alone(tmp, b, R, N, None, variant, od_arg(vals), index, ops)      # what is it, and does it die alone too?
        sims += 1
        if d is None:
            raise common_exit2("C28: program %d/%d (R=%d N=%d) killed its simulation but runs fine alone (exit 2)" % (index, variant, R, N))
        d["index"] = index
        deaths.append(d)
        for bit in class_deaths:
            if d["class"] & bit:
                class_deaths[bit] += 1
                if class_deaths[bit] >= CUT_AFTER:
                    skipclass |= bit
        resume = [od_arg(vals), "after=%d:%d" % (index, variant)]
        if len(deaths) > 300:
            raise common_exit2("C28: more than 300 dead simulations in one shard (R=%d N=%d) (exit 2)" % (R, N))
    return {"R": R, "N": N, "shard": shard, "tot": tot, "viol": viol + deaths, "sims": sims, "skipclass": skipclass}


def _confirm(task):
    tmp, b, R, N, v = task
    got = [alone(tmp, b, R, N, v["prog"], v["variant"]) for _ in range(2)]
    ok = all(g is not None and g["kind"] == v["kind"] and g["obs"] == v["obs"] for g in got)
    return ok, got


def run(ctx):
    b = binary()
    tmp = common.tmpdir("c28")
    try:
        _run(ctx, b, tmp)
    finally:
        mpix.cleanup(tmp)


def _run(ctx, b, tmp):
    import concurrent.futures as cf
    tot = dict.fromkeys(COUNTERS, 0)
    kinds, done, sims, cut = {}, [], 0, 0
    end = ctx.deadline.end - (10 if ctx.quick else 60)
    with cf.ProcessPoolExecutor(max_workers=common.NCPU) as ex:
        last = None
        for bi, (R, N, ns, ops) in enumerate(BOUNDS[ctx.tier]):
            left = end - time.time()
            # a bound is started only if, at the pace of the previous one, it fits in the time left
            if left < 5 or (last is not None and left < last[0] * bound_size(R, N, ops) / max(last[1], 2e6)):   # (small bounds are all overhead)
                break
            t0 = time.time()
            order = list(range(ns))
            if ctx.seed:
                import random
                random.Random(ctx.seed).shuffle(order)
            res = list(ex.map(run_shard, [(tmp, b, R, N, s, ns, end, ops) for s in order]))
            fatal = [r["fatal"] for r in res if r is not None and "fatal" in r]
            if fatal:
                k = kinds.setdefault(fatal[0]["kind"], {"n": len(fatal), "first": ((bi, "-", 0, R, N), fatal[0])})
                break
            if any(r is None for r in res):
                break                                   # bound not completed: nothing of it is reported
            for r in res:
                sims += r["sims"]
                for c in COUNTERS:
                    tot[c] += r["tot"][c]
                for v in r["viol"]:
                    k = kinds.setdefault(v["kind"], {"n": 0, "first": None})
                    k["n"] += 1
                    rank = (bi, v["prog"], v["variant"], R, N)     # first bound (same order in both tiers), then program text
                    if k["first"] is None or rank < k["first"][0]:
                        k["first"] = (rank, v)
            cut += sum(1 for r in res if r["skipclass"])
            done.append(bname(R, N, ops))
            last = (time.time() - t0, bound_size(R, N, ops))
        items = [(k, v["first"]) for k, v in sorted(kinds.items())]
        conf = list(ex.map(_confirm, [(tmp, b, f[0][3], f[0][4], f[1]) for _, f in items]))
    violations = []
    for (kind, (rank, v)), (ok, got) in zip(items, conf):
        if not ok:
            common.log("C28: violation does not reproduce identically alone: %s %s -> %s (exit 2)" % (kind, json.dumps(v), json.dumps(got)))
            raise SystemExit(2)
        key = "%s prog=%s sizes=v%d" % (kind, v["prog"], v["variant"])
        what = "%s; first of %d program runs of this kind (R=%d, %d operations, thresholds %d/%d); observed %s" % (
            DESCR.get(kind, kind), kinds[kind]["n"], rank[3], rank[4], A, D, v["obs"] or "-")
        violations.append(Violation(key, what, {"R": rank[3], "N": rank[4], "variant": v["variant"],
                                                "prog": v["prog"], "kind": kind, "obs": v["obs"]}))
    nontrivial = tot["multi"] + tot["mixed"]
    if not violations and (not done or nontrivial < 2 or tot["kept"] < 2):
        common.log("C28: vacuous run (bounds done: %s, programs with >= 2 legal outcomes or mixed sizes from one sender: %d)" % (done, nontrivial))
        raise SystemExit(2)
    all_bounds = [bname(R, N, ops) for R, N, _, ops in BOUNDS[ctx.tier]]
    coverage = {
        "states": tot["states"], "transitions": tot["transitions"], "traces_validated_against_impl": tot["runs"],
        "samples": ["S(1,0,M),S(1,1,S)|R(0,*,b),R(0,*,b)", "X(1,0,S;*,*)|X(0,1,L;0,1)", "I(1,0,L),P(1,*)|B(0,1,S),J(*,0,b)"],
        "exhaustive": done == all_bounds and cut == 0,
        "bounds_completed": done, "bounds_planned": all_bounds,
        "programs_enumerated": tot["generated"], "programs_balanced": tot["balanced"],
        "programs_run": tot["kept"], "programs_discarded_model_deadlock": tot["deadlocking"],
        "programs_discarded_state_limit": tot["overflow"],
        "programs_with_two_or_more_legal_outcomes": tot["multi"], "distinct_nontrivial": nontrivial, "evaluations": tot["runs"], "legal_outcomes": tot["outcomes"],
        "programs_with_any_source": tot["anysrc"], "programs_with_mixed_sizes_from_one_sender": tot["mixed"],
        "truncating_receives_checked": tot["truncs"], "simulations": sims,
        "shards_with_a_cut_class": cut, "programs_skipped_in_cut_classes": tot["skipped"],
        "cut_rule": "program classes: (1) a small-capacity receive may get a longer message, (2) a sender sends a message of class M/L "
                    "and later one of class S to the same rank, (4) a rank posts receives of both capacities. After %d simulations of a shard died on programs of a class, the "
                    "remaining programs of that class are skipped in that shard (counted above); violations that do not kill the "
                    "simulation never cut anything" % CUT_AFTER,
        "implementation_runs_failing": sum(k["n"] for k in kinds.values()),
        "thresholds": {"smpi/async-small-thresh": A, "smpi/send-is-detached-thresh": D,
                       "size_variants": [[1, A, D], [A - 1, D - 1, D + 1], [1, A + 1, D]]},
        "rule": "states/transitions are those of the reference matching model summed over the programs explored; a trace = one "
                "execution of one program with one size assignment on SMPI, validated against the model's terminal outcomes"}
    assumptions = ["the reference model (FIFO per ordered pair, posted/unexpected queues, standard sends buffered or synchronous) is MPI-3.1 section 3.5",
                   "only programs in which no model execution deadlocks and every message is received are run; Isend/Irecv are waited at the end of the rank's program",
                   "SMPI is deterministic for a fixed program (smpi/simulate-computation:no): one observation per program and size assignment",
                   "probes are compared by (source, tag, count) of the message; Iprobe may always answer 'nothing'"]
    common.finish(ctx, "model_checking", coverage, assumptions, violations, engine=ENGINE)


def replay(ctx, case):
    b = binary()
    tmp = common.tmpdir("c28r")
    try:
        c = case["case"]
        got = alone(tmp, b, c["R"], c["N"], c["prog"], c["variant"])
        print("program (R=%d): %s   size assignment v%d, thresholds %d/%d" % (c["R"], c["prog"], c["variant"], A, D))
        print("equivalent: smpirun -np %d --cfg=smpi/async-small-thresh:%d --cfg=smpi/send-is-detached-thresh:%d ./c28p2p %d %d 0 1 'prog=%s' onlyvar=%d" % (
            c["R"], A, D, c["R"], c["N"], c["prog"], c["variant"]))
        if got is None:
            print("observed: an outcome the MPI matching model allows")
            return 0
        print("observed: %s (%s) %s" % (got["kind"], DESCR.get(got["kind"], ""), got["obs"]))
        return 1
    finally:
        mpix.cleanup(tmp)
