"""C32 — groups and communicators follow MPI rules (engine E7 mpix, harness/mpix/c32/grp.c).

World sizes 1..4 (quick) / 1..5 (thorough), one level per world size; inside a level the sections are separate
simulations sharded over the cores:
  incl    every base group (every ordered list of distinct world ranks) x every ordered index list: Group_incl, Group_excl
  ranges  every base group x every valid (first,last,stride); every pair of non-overlapping ranges on every permutation
          of the world: Group_range_incl / Group_range_excl
  setops  every ordered pair (A,B) of ordered lists: union, intersection, difference, compare, translate_ranks (+PROC_NULL)
  split   parents {world, reversed world} x every vector of (colour in {0,1,UNDEFINED}, key in {-1,0,1}) per process
  create  parents {world, reversed} x every ordered list as group: Comm_create, then Comm_dup of the result (+Comm_compare)
  cross   6 communicators over the same processes (world, dup, dup of dup, split, create, reversed split) x every ordered
          pair of them x every (src,dst) x receive selectors {exact, ANY_SOURCE, ANY_TAG, both} x {1, 20000} ints:
          two messages in flight with identical envelope on two communicators, received in the opposite order.
Oracle: MPI-3.1 chapter 6 definitions on plain rank lists, written in the harness (see its header comment)."""
import os, sys, json, time, concurrent.futures as cf
import common, mpix

SECTIONS = ["incl", "ranges", "setops", "split", "create", "cross"]
# shards per (section, W) -- everything else runs as one simulation
SHARDS = {("ranges", 4): 4, ("ranges", 5): 32, ("setops", 5): 8, ("split", 4): 4, ("split", 5): 16, ("cross", 5): 4,
          ("incl", 5): 2, ("cross", 4): 2}
COUNTERS = ["cases", "checks", "order_sensitive", "nonident", "split_ties", "cross", "ring"]
KEYFIELDS = ("base", "l", "ranges", "a", "b", "parent", "colours", "keys", "group", "of", "first", "second", "src", "dst",
             "sel", "count", "rank")
WHAT = {
    "order": "result has the right members in the wrong rank order",
    "members": "result has wrong members",
    "error": "call failed or returned an unusable group",
    "grouprank": "MPI_Group_rank in the result is wrong",
    "translate-inverse": "MPI_Group_translate_ranks(world -> result) disagrees with the result's members",
    "ring": "a message sent inside the new communicator reached / came from the wrong process",
    "rank-size": "MPI_Comm_rank / MPI_Comm_size of the new communicator are wrong",
    "member-null": "a member got MPI_COMM_NULL",
    "nonmember-not-null": "a non-member got a communicator",
}


def _sortkey(d):
    return (int(d["W"]), SECTIONS.index(d["sec"]), int(d["ord"]), int(d["rank"]))


def _key(d):
    return "C32 %s W=%s %s" % (d["kind"], d["W"], " ".join("%s=%s" % (f, d[f]) for f in KEYFIELDS if f in d))


def _describe(kind):
    if kind == "cross-comm":
        return "a message sent on one communicator was received on another one (or with a wrong envelope)"
    if kind in ("compare", "compare-world"):
        return "MPI_Group_compare returns the wrong relation"
    if kind == "translate":
        return "MPI_Group_translate_ranks returns a wrong rank"
    if kind == "dup-compare":
        return "MPI_Comm_compare(comm, dup) is not MPI_CONGRUENT"
    op, _, tail = kind.partition("-")
    for t in sorted(WHAT, key=len, reverse=True):
        if kind.endswith("-" + t):
            return "MPI %s: %s" % (kind[:-len(t) - 1], WHAT[t])
    return kind


def _job(job):
    tmp, binary, W, sec, shard, nshards, timeout = job
    rc, out, err = mpix.smpirun(tmp, binary, W, [sec, shard, nshards, -1], timeout=timeout, nhosts=5)
    return {"W": W, "sec": sec, "shard": shard, "nshards": nshards, "rc": rc, "out": out, "err": err[-1200:]}


def _rerun(tmp, binary, case):
    rc, out, err = mpix.smpirun(tmp, binary, case["W"], [case["sec"], 0, 1, case["ord"]], timeout=300, nhosts=5)
    return rc, [d for t, d in mpix.records(out) if t == "V"], err


def run(ctx):
    binary = mpix.build_smpi("c32_grp", ["c32/grp.c"])
    tmp = common.tmpdir("c32")
    mpix.platform(tmp, 5)
    maxw = 4 if ctx.quick else 5
    agg = mpix.Agg(_sortkey, COUNTERS)
    done, crashes, exhaustive, samples, per_level = [], [], True, [], {}
    for W in range(1, maxw + 1):
        if ctx.deadline.over():
            exhaustive = False
            break
        jobs = []
        for sec in SECTIONS:
            n = SHARDS.get((sec, W), 1)
            jobs += [(tmp, binary, W, sec, s, n, max(120, ctx.deadline.left() + 300)) for s in range(n)]
        if ctx.seed:
            import random
            random.Random(ctx.seed).shuffle(jobs)
        with cf.ThreadPoolExecutor(max_workers=common.NCPU) as ex:
            res = list(ex.map(_job, jobs))
        complete = True
        before = dict(agg.tot)
        for r in res:
            # group sections are executed identically by every rank (counted once, rank 0); collective ones once per case
            agg.absorb(r["out"], count_from=lambda d: d["rank"] == "0")
            if r["rc"] == 124:
                complete = False
            elif r["rc"] != 0:
                crashes.append(r)
        per_level["W=%d" % W] = {c: agg.tot[c] - before[c] for c in COUNTERS}
        if not complete:
            exhaustive = False
            common.log("C32: level W=%d not completed before the deadline" % W)
            break
        done.append(W)
        common.log("C32: level W=%d done at %.1fs" % (W, time.time() - ctx.t0))

    violations = []
    for kind, k in sorted(agg.kinds.items()):
        d = k["first"]
        if d is None:
            common.log("C32: kind %s counted but no record kept" % kind)
            sys.exit(2)
        case = {"W": int(d["W"]), "sec": d["sec"], "ord": int(d["ord"]), "kind": kind, "record": d}
        mpix.confirm_twice("C32", _key(d), d, lambda: _rerun(tmp, binary, case))
        det = " ".join("%s=%s" % (a, d[a]) for a in ("got", "exp", "rc", "recv_on", "source", "expsource", "i", "world", "from") if a in d)
        violations.append(common.Violation(_key(d), "%s; first of %d failing evaluations (all ranks) in this run (%s)" % (
            _describe(kind), k["count"], det), case))
    for r in crashes:
        key = "C32 crash W=%d sec=%s shard=%d/%d" % (r["W"], r["sec"], r["shard"], r["nshards"])
        for attempt in (1, 2):
            again = _job((tmp, binary, r["W"], r["sec"], r["shard"], r["nshards"], 600))
            if again["rc"] == 0:
                common.log("C32: %s did not reproduce: harness bug" % key)
                sys.exit(2)
        exhaustive = False
        violations.append(common.Violation(key, "the simulation died (exit %s): %s" % (r["rc"], r["err"].strip().splitlines()[-1:]),
                                           {"W": r["W"], "sec": r["sec"], "shard": r["shard"], "nshards": r["nshards"], "kind": "crash"}))
    samples = [
        {"section": "setops", "W": 3, "a": [2, 0], "b": [0, 1, 2], "union": [2, 0, 1], "intersection": [2, 0], "difference": []},
        {"section": "split", "W": 3, "parent": "reversed", "colours": [0, 0, 0], "keys": [1, 0, 0], "expected_members_world_ranks": [2, 1, 0]},
        {"section": "cross", "first": "dup", "second": "split", "src": 0, "dst": 1, "selector": "ANY_SOURCE+ANY_TAG", "count": 20000},
    ]
    nontriv = agg.tot["order_sensitive"] + agg.tot["split_ties"] + agg.tot["cross"]
    cov = {
        "evaluations": agg.tot["cases"],
        "distinct_nontrivial": nontriv,
        "rule": "cases = every enumerated (operation, operand lists) / (colour,key vector) / (communicator pair, src, dst, selector, size), "
                "counted once (all ranks execute them); non-trivial = distinct cases where the collision aimed at happens: "
                "pairs (A,B) whose common members appear in different relative orders in A and B (order of the result "
                "matters), split vectors with a key tie inside a colour (old-rank tie-break matters, counted on rank 0), and cross-communicator "
                "cases (two messages with identical envelope in flight on two communicators)",
        "samples": samples,
        "exhaustive": exhaustive and done == list(range(1, maxw + 1)),
        "world_sizes_completed": done,
        "per_level": per_level,
        "checks_on_rank0": agg.tot["checks"], "order_sensitive_pairs": agg.tot["order_sensitive"],
        "non_identical_pairs_compared": agg.tot["nonident"], "split_cases_with_key_tie_rank0": agg.tot["split_ties"],
        "cross_communicator_cases": agg.tot["cross"], "ring_exchanges_rank0": agg.tot["ring"],
        "violation_kinds": {k: v["count"] for k, v in agg.kinds.items()},
    }
    mpix.cleanup(tmp)
    if nontriv < 2:
        common.log("C32: vacuous run")
        sys.exit(2)
    common.finish(ctx, "exploration", cov, [
        "oracle = MPI-3.1 chapter 6 definitions on rank lists, written in harness/mpix/c32/grp.c; groups are observed through "
        "MPI_Group_size + MPI_Group_translate_ranks to the world group, cross-checked by MPI_Group_rank on every rank and by a ring "
        "exchange of world ranks inside every new communicator",
        "erroneous calls (duplicate ranks, overlapping ranges, stride of the wrong sign, different groups passed to Comm_create) are not exercised",
        "inter-communicators, Comm_create_group, Comm_split_type and attribute copying in Comm_dup are outside the statement",
    ], violations, engine="mpix")


def replay(ctx, case):
    binary = mpix.build_smpi("c32_grp", ["c32/grp.c"])
    tmp = common.tmpdir("c32r")
    mpix.platform(tmp, 5)
    c = case["case"]
    if c.get("kind") == "crash":
        r = _job((tmp, binary, c["W"], c["sec"], c["shard"], c["nshards"], 600))
        print("exit", r["rc"]); print(r["err"])
        mpix.cleanup(tmp)
        return 1 if r["rc"] else 0
    rc, vs, err = _rerun(tmp, binary, c)
    mpix.cleanup(tmp)
    for v in vs:
        print("V " + " ".join("%s=%s" % kv for kv in v.items()))
    hit = [v for v in vs if v["kind"] == c["kind"]]
    print("replay of %s: exit %d, %d violation record(s), %d of kind %s" % (case.get("key"), rc, len(vs), len(hit), c["kind"]))
    return 1 if hit or rc != 0 else 0
