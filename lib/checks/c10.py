"""C10 Resource failures are reported to every live participant  (DESIGN.md §5 group C; level fault_enumeration).

Programs: <=3 actors (actor i on host h_i), <=2 ops each over {E exec, S sleep, Pj put, Gj get, Rj exec on host j}, on 3 hosts
with 3 dedicated links (plat 3) or 2 links with a two-hop route h0-h2 (plat 2); kept when they terminate fault-free and
contain a communication or a remote exec. Bounds (actors, ops): (2,1) (3,1 on both platforms) (2,2); thorough adds (3,2) on
plat 3 up to actor renaming (plat 2 with 3x2 = 2.6M cases is not run).
For each program: fault-free run -> event dates D (0 and every date an op ended); for every resource r (3 hosts, 2-3 links),
every t in D and delta in {-2^-10, 0, +2^-10} (dyadic, so every date stays an exact double): r is turned off at t+delta
 (a) by an injector actor on an immortal host, (b) by a state profile.  Thorough adds all pairs of such faults on two
different resources (API) for the bounds (2,1), (3,1)/plat 3 and (2,2).
Oracle = lib/c10ref.py (discrete-event reference with the failure rules of the statement): the per-actor logs (op, result,
date), the on_exit calls (exactly one, failed flag, date; nothing logged after a kill) and the set of actors left blocked must
be one of the outcomes the reference allows; where a fault carries the date of another event every processing order is
allowed (both ends of a communication then agree by construction). A blocked actor is allowed only when its put/get was
never matched (it then involves no failed resource).
All the (program, fault) cases of a shard run as independent copies of the platform inside ONE simulation (disjoint
resources and mailboxes, a common immortal host for the injectors); every violation is re-run alone twice.
"""
import os, sys, json, subprocess, time, shutil, itertools
import common
import c10ref as R

DELTA = 2.0 ** -10
CHUNK = 500


def prog_str(p):
    return "|".join(",".join(ops) if ops else "-" for ops in p)


def canon3(p):
    """is p the smallest among its actor renamings (plat 3 is symmetric)?"""
    n = len(p)
    best = None
    for perm in itertools.permutations(range(n)):
        q = [None] * n
        for i in range(n):
            q[perm[i]] = tuple(op[0] + str(perm[int(op[1])]) if len(op) > 1 else op for op in p[i])
        q = tuple(q)
        if best is None or q < best:
            best = q
    return tuple(p) == best


def programs(bound):
    A, K, plat, canon = bound
    out = []
    for p in R.enumerate_programs(A, K, plat):
        if not R.relevant(p):
            continue
        if K > 1 and all(len(o) < K for o in p):
            continue                                  # already in the bound with K-1 ops
        if A == 3 and any(len(o) == 0 for o in p):
            continue                                  # an idle third actor: that is a 2-actor program
        if canon and not canon3(p):
            continue
        ok, ff = R.terminates(plat, p)
        if ok:
            out.append((p, ff))
    return out


def fault_list(plat, dates):
    fl = []
    for r in R.resources(plat):
        for t in sorted(dates):
            for d in (-DELTA, 0.0, DELTA):
                if t + d >= 0:
                    fl.append((r, t + d))
    return fl


# ------------------------------------------------------------------------------------------------ running

def _run(cmd):
    """subprocess.run, retried while libsimgrid is being relinked by somebody else's bin/check (loader error, exit 127)"""
    for attempt in range(12):
        r = subprocess.run(cmd, stdout=subprocess.PIPE, stderr=subprocess.PIPE, text=True)
        if r.returncode != 127 or "libsimgrid" not in r.stderr:
            return r
        time.sleep(10)
    return r

def scenario_text(cases):
    """cases: list of (plat, prog, [(res, date, method)])"""
    L = []
    for k, (plat, prog, faults) in enumerate(cases):
        L.append("copy k%d %d" % (k, plat))
        for i, ops in enumerate(prog):
            L.append("actor %d %s" % (i, " ".join(ops)))
        for r, t, m in faults:
            L.append("fault %s %.17g %s" % (r, t, m))
        L.append("end")
    return "\n".join(L) + "\n"


def execute(exe, d, cases, tag):
    """-> list (per case) of observed outcome, or ('anomaly', text)"""
    sf = os.path.join(d, "scn-%s-%d.txt" % (tag, os.getpid()))
    open(sf, "w").write(scenario_text(cases))
    r = _run([exe, sf, "--log=root.thres:critical", "--cfg=contexts/stack-size:128"])
    os.unlink(sf)
    if r.returncode != 0 or not r.stdout.rstrip().splitlines()[-1:][0].startswith("END"):
        return None, "exit %s: %s" % (r.returncode, r.stderr[-1500:])
    logs = [[[] for _ in range(3)] for _ in cases]
    exits = [[[] for _ in range(3)] for _ in cases]
    blocked = [set() for _ in cases]
    for line in r.stdout.splitlines():
        w = line.split()
        if w[0] == "L":
            logs[int(w[1][1:])][int(w[2])].append((int(w[3]), w[4], float(w[5])))
        elif w[0] == "X":
            exits[int(w[1][1:])][int(w[2])].append((int(w[3]), float(w[4])))
        elif w[0] == "B":
            blocked[int(w[1][1:])].add(int(w[2]))
    res = []
    for k, (plat, prog, faults) in enumerate(cases):
        out, anomalies = [], []
        for a in range(len(prog)):
            if a in blocked[k]:
                ex = ("blocked",)
                if len(exits[k][a]) > 1:
                    anomalies.append("on_exit of actor %d ran %d times" % (a, len(exits[k][a])))
            elif len(exits[k][a]) == 1:
                ex = ("exit",) + exits[k][a][0]
            else:
                ex = ("exit?", len(exits[k][a]))
                anomalies.append("on_exit of actor %d ran %d times: %s" % (a, len(exits[k][a]), exits[k][a]))
            out.append((tuple(logs[k][a]), ex))
        res.append((tuple(out), anomalies))
    return res, None


def classify(obs, anomalies, allowed):
    if anomalies:
        return "on_exit-count", "; ".join(anomalies)
    if obs in allowed:
        return None, None
    exp = sorted(allowed)
    strip = lambda o: tuple((tuple((i, r) for i, r, _ in log), ex[:2]) for log, ex in o)
    for a, (log, ex) in enumerate(obs):
        if ex == ("blocked",) and not any(e[a][1] == ("blocked",) for e in exp):
            return "blocked-forever", "actor %d stays blocked; allowed: %s" % (a, [e[a] for e in exp])
    for a, (log, ex) in enumerate(obs):
        killed = [e[a][1] for e in exp if e[a][1][0] == "exit" and e[a][1][1] == 1]
        if killed and len(killed) == len(exp) and ex[0] == "exit" and ex[1] == 0:
            return "killed-actor-survives", "actor %d should be killed (on_exit failed=1) but: log %s exit %s" % (a, log, ex)
    if strip(obs) in [strip(e) for e in exp]:
        return "date", "results as expected but dates differ: observed %s, allowed %s" % (obs, exp)
    return "outcome", "observed %s, allowed %s" % (obs, exp)


_G = {}


def _chunk(arg):
    """arg = (tag, [(plat, prog, faults)]) -> per-case verdicts"""
    tag, cases = arg
    obs, err = execute(_G["exe"], _G["d"], cases, tag)
    if obs is None:
        return {"error": err, "n": len(cases)}
    out = {"n": len(cases), "nontrivial": 0, "ties": 0, "tie_second": 0, "fails": [], "seen": {}}
    for (plat, prog, faults), (o, anomalies) in zip(cases, obs):
        allowed = R.outcomes(plat, prog, [(r, t) for r, t, m in faults])
        ff = R.outcomes(plat, prog, [])
        if allowed != ff:
            out["nontrivial"] += 1
        if len(allowed) > 1:
            out["ties"] += 1
            if o in allowed and o != min(allowed):
                out["tie_second"] += 1
        for log, ex in o:
            for _, r_, _t in log:
                out["seen"][r_] = out["seen"].get(r_, 0) + 1
            out["seen"][ex[0] + (str(ex[1]) if ex[0] == "exit" else "")] = out["seen"].get(ex[0] + (str(ex[1]) if ex[0] == "exit" else ""), 0) + 1
        cls, detail = classify(o, anomalies, allowed)
        if cls:
            out["fails"].append((cls, plat, prog, faults, detail))
    return out


def run_alone(exe, d, plat, prog, faults):
    obs, err = execute(exe, d, [(plat, prog, faults)], "one")
    if obs is None:
        return ("crash", err), None
    o, anomalies = obs[0]
    allowed = R.outcomes(plat, prog, [(r, t) for r, t, m in faults])
    return classify(o, anomalies, allowed), o


def fault_str(faults):
    return "+".join("%s@%g" % (r, t) for r, t, m in faults) + " via=" + "/".join(sorted({m for _, _, m in faults}))


def run(ctx):
    exe = common.build_harness("c10x", ["misc/c10/c10x.cpp"])
    d = common.tmpdir("c10")
    _G["exe"], _G["d"] = exe, d
    dl = common.Deadline(max(ctx.deadline.left(), 0.8 * (ctx.deadline.end - ctx.deadline.t0)))
    #          name     actors ops plat canonical  pairs
    bounds = [("2x1", (2, 1, 3, False), False), ("3x1/plat3", (3, 1, 3, False), False), ("3x1/plat2", (3, 1, 2, False), False),
              ("2x2", (2, 2, 3, False), False)]
    if not ctx.quick:
        bounds += [("pairs:2x1", (2, 1, 3, False), True), ("pairs:3x1/plat3", (3, 1, 3, False), True),
                   ("3x2/plat3", (3, 2, 3, True), False), ("pairs:2x2", (2, 2, 3, False), True)]
    tot = {"n": 0, "nontrivial": 0, "ties": 0, "tie_second": 0, "seen": {}, "programs": 0}
    fails, by_bound, times, samples, done = {}, {}, {}, [], []
    rate = 0.001
    try:
        for name, b, pairs in bounds:
            progs = programs(b)
            plat = b[2]
            # fault-free runs first: they give the event dates, and must agree with the reference
            ffc = [(plat, p, []) for p, ff in progs]
            obs, err = execute(exe, d, ffc, "ff")
            if obs is None:
                common.log("C10: fault-free batch failed: " + err)
                raise SystemExit(2)
            cases = []
            for (p, ff), (o, anomalies) in zip(progs, obs):
                if o != ff or anomalies:
                    common.log("C10: fault-free run of %s differs from the reference: %s vs %s %s (reference or executor bug)" % (prog_str(p), o, ff, anomalies))
                    raise SystemExit(2)
                dates = {0.0} | {t for log, ex in o for _, _, t in log}
                fl = fault_list(plat, dates)
                if not pairs:
                    for r, t in fl:
                        cases.append((plat, p, [(r, t, "api")]))
                        cases.append((plat, p, [(r, t, "profile")]))
                else:
                    for (r1, t1), (r2, t2) in itertools.combinations(fl, 2):
                        if r1 != r2:
                            cases.append((plat, p, [(r1, t1, "api"), (r2, t2, "api")]))
            if dl.left() < 5 + len(cases) * rate:
                break
            t0 = time.time()
            chunks = [("%s-%d" % (name.replace("/", "_").replace(":", "_"), i), cases[i:i + CHUNK]) for i in range(0, len(cases), CHUNK)]
            if ctx.seed:
                import random
                random.Random(ctx.seed).shuffle(chunks)
            for r in common.pmap(_chunk, chunks):
                if "error" in r:
                    common.log("C10: a batch of %d cases failed as a whole: %s" % (r["n"], r["error"]))
                    raise SystemExit(2)
                for k in ("n", "nontrivial", "ties", "tie_second"):
                    tot[k] += r[k]
                for k, v in r["seen"].items():
                    tot["seen"][k] = tot["seen"].get(k, 0) + v
                for cls, plat_, prog, faults, detail in r["fails"]:
                    kind = "+".join(sorted({f[0][0] for f in faults}))
                    meth = "/".join(sorted({f[2] for f in faults}))
                    g = (cls, kind, meth)
                    cand = (len(prog_str(prog)), prog_str(prog), fault_str(faults))
                    if g not in fails:
                        fails[g] = [0, cand, plat_, prog, faults, detail]
                    fails[g][0] += 1
                    if cand < fails[g][1]:
                        fails[g][1:] = [cand, plat_, prog, faults, detail]
            tot["programs"] += len(progs)
            by_bound[name] = {"programs": len(progs), "cases": len(cases)}
            el = time.time() - t0
            times[name] = round(el, 2)
            if len(cases) >= 5000:
                rate = el / len(cases)
            if cases:
                pl, p, f = cases[len(cases) // 2]
                samples.append({"plat": pl, "program": prog_str(p), "fault": fault_str(f),
                                "allowed": [str(o) for o in sorted(R.outcomes(pl, p, [(r_, t_) for r_, t_, m_ in f]))][:2]})
            done.append(name)
        violations = []
        for (cls, kind, meth), (cnt, cand, plat, prog, faults, detail) in sorted(fails.items()):
            a, _ = run_alone(exe, d, plat, prog, faults)
            b_, _ = run_alone(exe, d, plat, prog, faults)
            if a != b_ or a[0] != cls:
                common.log("C10: %s on %s %s does not reproduce alone (%s / %s): harness bug or cross-copy interference"
                           % (cls, prog_str(prog), fault_str(faults), a, b_))
                raise SystemExit(2)
            key = "C10 %s res=%s via=%s plat=%d prog=%s fault=%s" % (cls, {"h": "host", "l": "link"}.get(kind, kind), meth, plat, prog_str(prog),
                                                                      "+".join("%s@%g" % (r, t) for r, t, m in faults))
            violations.append(common.Violation(key, "%s [%d cases of this class; this is the smallest]" % (detail, cnt),
                                               {"plat": plat, "prog": [list(o) for o in prog], "faults": [list(f) for f in faults]}))
    finally:
        shutil.rmtree(d, ignore_errors=True)
    if tot["nontrivial"] < 2:
        common.log("C10: vacuous run")
        raise SystemExit(2)
    cov = {"evaluations": tot["n"], "distinct_nontrivial": tot["nontrivial"],
           "rule": "one evaluation = one (program, fault or pair of faults, injection method) simulated and compared with the reference; all distinct; "
                   "non-trivial = the reference's allowed outcomes differ from the fault-free outcome (the fault hit an activity or an actor)",
           "samples": samples[:6], "exhaustive": len(done) == len(bounds), "bounds_completed": done, "bounds_target": [b[0] for b in bounds],
           "programs": tot["programs"], "by_bound": by_bound, "seconds_by_bound": times,
           "tie_cases_with_several_allowed_outcomes": tot["ties"], "tie_cases_where_the_non_minimal_outcome_was_observed": tot["tie_second"],
           "results_seen": tot["seen"]}
    common.finish(ctx, "fault_enumeration", cov,
                  ["reference semantics lib/c10ref.py (what 'in flight', 'blocked', 'killed' mean; ties explored in every order)",
                   "one actor per host, 4 cores per host, dedicated links, CM02, TCP-gamma 0: fixed dyadic durations; delta = 2^-10 s",
                   "the cases of a shard are independent copies of the platform in one simulation (injectors share an immortal host); "
                   "each violation is confirmed twice alone in its own process",
                   "permanent failures only (no restart); blocking put/get/exec/sleep and waited remote execs only (no async sets, no I/O)"],
                  violations, engine="misc/c10x")


def replay(ctx, case):
    exe = common.build_harness("c10x", ["misc/c10/c10x.cpp"])
    d = common.tmpdir("c10")
    c = case["case"]
    prog = tuple(tuple(o) for o in c["prog"])
    faults = [tuple(f) for f in c["faults"]]
    try:
        (cls, detail), o = run_alone(exe, d, c["plat"], prog, faults)
    finally:
        shutil.rmtree(d, ignore_errors=True)
    print("plat %d  program %s  fault %s" % (c["plat"], prog_str(prog), fault_str(faults)))
    print("observed:", o)
    for e in sorted(R.outcomes(c["plat"], prog, [(r, t) for r, t, m in faults])):
        print("allowed :", e)
    if cls:
        print("  VIOLATED %s :: %s" % (cls, detail))
    return 1 if cls else 0
