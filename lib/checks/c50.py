"""C50 — xbt_dynar / xbt_dict behave like a growable array / a string-keyed map (engine E10 "xbtx").

Every operation history up to a length bound is replayed on a FRESH container (plus an optional start-state prefill that
puts the container one step before a capacity expansion / a rehash) and compared, step by step, with a boring reference
(std::vector<bytes> / std::map in the harness).  Two flavours of each harness: linked against libsimgrid's own compiled
copy, and an AddressSanitizer build into which /repo's dynar.cpp / dict*.c* are compiled directly (heap overflows,
use-after-free and per-history leaks).  A few histories per job are also replayed against a second, Python reference.
"""
import os, sys, json, re, random, shutil, subprocess, concurrent.futures as cf
import common

ENGINE = "E10 xbtx"
ASAN = ["-fsanitize=address", "-fno-omit-frame-pointer"]
# no allocation stacks (libsimgrid has no frame pointers: slow unwinding) and a small quarantine (a history lives for
# microseconds; the default 256 MB quarantine makes every allocation touch fresh pages): 5x faster, same detection
ASAN_ENV = "detect_leaks=0:malloc_context_size=0:quarantine_size_mb=1:thread_local_quarantine_size_kb=64:exitcode=3"

# Bounds, in the order they are run. A bound is a group of jobs (container, mode, start state, flavour, history lengths)
# whose shards are run together on all cores; "a bound is completed or not started".
def plan(quick):
    DM, KM = ["b1", "b12", "ptr"], ["free", "plain"]
    def J(cont, modes, start, flav, lo, hi, cost):
        # cost = estimated CPU seconds of the job (measured on this machine; only decides shard counts and whether a
        # bound still fits before the deadline)
        return [dict(container=cont, mode=m, start=start, flavour=flav, minlen=lo, maxlen=hi, cost=cost) for m in modes]
    G = [("both builds, short histories",
          J("dynar", DM, 0, "plain", 0, 4, 1) + J("dict", KM, 0, "plain", 0, 4, 1) + J("dynar", DM, 6, "plain", 0, 3, 1) +
          J("dict", KM, 102, "plain", 0, 3, 1) + J("dict", KM, 204, "plain", 0, 2, 1) +
          J("dynar", DM, 0, "asan", 0, 3, 1) + J("dict", KM, 0, "asan", 0, 3, 1) + J("dynar", DM, 6, "asan", 0, 2, 1) +
          J("dict", KM, 102, "asan", 0, 2, 1)),
         ("plain build, quick lengths",
          J("dynar", DM, 0, "plain", 5, 5, 4) + J("dict", KM, 0, "plain", 5, 5, 8) + J("dynar", DM, 6, "plain", 4, 4, 8) +
          J("dict", KM, 102, "plain", 4, 4, 6) + J("dict", KM, 204, "plain", 3, 3, 2)),
         ("ASan build, quick lengths",
          J("dynar", DM, 0, "asan", 4, 4, 2) + J("dict", KM, 0, "asan", 4, 4, 8) + J("dynar", DM, 6, "asan", 3, 3, 8) +
          J("dict", KM, 102, "asan", 3, 3, 3))]
    if quick:
        return G
    G += [("plain build, from empty, length 6",
           J("dynar", DM, 0, "plain", 6, 6, 70) + J("dict", KM, 0, "plain", 6, 6, 110)),
          ("plain build, from the prefilled starts, one step longer",
           J("dynar", DM, 6, "plain", 5, 5, 200) + J("dict", KM, 102, "plain", 5, 5, 90) +
           J("dict", KM, 204, "plain", 4, 4, 12)),
          ("ASan build, one step longer",
           J("dict", KM, 0, "asan", 5, 5, 90) + J("dict", KM, 102, "asan", 4, 4, 30) +
           J("dynar", DM, 6, "asan", 4, 4, 270) + J("dynar", DM, 0, "asan", 5, 5, 15)),
          ("ASan build, dynar length 6", J("dynar", DM, 0, "asan", 6, 6, 320)),
          ("plain build, dict from the rehash thresholds, longer",
           J("dict", KM, 204, "plain", 5, 5, 170) + J("dict", ["free"], 102, "plain", 6, 6, 1300)),
          ("plain build, length 7", J("dict", ["free"], 0, "plain", 7, 7, 1900) + J("dynar", ["b12"], 0, "plain", 7, 7, 1500))]
    return G


def build():
    R = common.REPO
    jobs = {
        ("dynar", "plain"): lambda: common.build_harness("c50_dynar", ["xbtx/c50_dynar.cpp"]),
        ("dynar", "asan"): lambda: common.build_harness("c50_dynar_asan", ["xbtx/c50_dynar.cpp"],
                                                        extra=["-DC50_INLINE_SOURCES"] + ASAN, libs=ASAN),
        ("dict", "plain"): lambda: common.build_harness("c50_dict", ["xbtx/c50_dict.cpp"]),
        ("dict", "asan"): lambda: common.build_harness(
            "c50_dict_asan", ["xbtx/c50_dict.cpp", R + "/src/xbt/dict.cpp", R + "/src/xbt/dict_cursor.c",
                              R + "/src/xbt/dict_elm.c"], extra=ASAN, libs=["-lstdc++", "-lm"] + ASAN, cxx="gcc"),
    }
    with cf.ThreadPoolExecutor(4) as ex:
        fut = {k: ex.submit(f) for k, f in jobs.items()}
        return {k: f.result() for k, f in fut.items()}


def env_for(flavour, full_stacks=False):
    e = dict(os.environ)
    if flavour == "asan":
        e["ASAN_OPTIONS"] = "detect_leaks=0:exitcode=3" if full_stacks else ASAN_ENV
    return e


def crash_text(out, errtxt, rc):
    m = re.search(r"CRASH (\S+) hist=(.*)", out)
    kind = m.group(1) if m else "exit=%d" % rc
    a = re.search(r"ERROR: AddressSanitizer: (\S+)", errtxt)
    if a:
        kind = "AddressSanitizer " + a.group(1)
    elif "signal=6" in kind:
        kind = "abort (assertion)"
    elif "signal=11" in kind:
        kind = "segmentation fault"
    return kind, (m.group(2).strip() if m else None)


def run_shard(a):
    binp, job, shard, nsh, statefile = a
    cmd = [binp, job["mode"], str(job["start"]), "enum", str(job["minlen"]), str(job["maxlen"]), str(shard), str(nsh),
           statefile]
    r = subprocess.run(cmd, stdout=subprocess.PIPE, stderr=subprocess.PIPE, text=True, env=env_for(job["flavour"]))
    line = [l for l in r.stdout.splitlines() if l.startswith("{")]
    if r.returncode == 0 and line:
        return json.loads(line[-1])
    kind, hist = crash_text(r.stdout, r.stderr, r.returncode)
    return {"crash": kind, "hist": hist, "stderr": r.stderr[-1500:]}


def run_one(binp, case, full_stacks=False):
    cmd = [binp, case["mode"], str(case["start"]), "one", case["hist"]]
    r = subprocess.run(cmd, stdout=subprocess.PIPE, stderr=subprocess.PIPE, text=True,
                       env=env_for(case["flavour"], full_stacks))
    steps, verdict = [], None
    for l in r.stdout.splitlines():
        if l.startswith("{"):
            try:
                o = json.loads(l)
            except ValueError:
                continue
            if "verdict" in o:
                verdict = o["verdict"]
            else:
                steps.append(o)
    if verdict is None:
        kind, _ = crash_text(r.stdout, r.stderr, r.returncode)
        verdict = "crash: " + kind
    return steps, verdict, r.stderr


# ------------------------------------------------------------------ second reference, in Python (list / dict)
PAL = [5, 3, 9, 3, 1, 7, 2, 8, 6, 4]
PRE = [4, 6, 0, 6, 2, 10, 12, 14]


def py_dynar(mode, start, hist, steps):
    """Replays `hist` on a Python list and compares with the observations printed by the harness. -> list of mismatches"""
    ptr = mode == "ptr"
    E = 8 if ptr else int(mode[1:])
    nid = [0]
    def mk(v):
        if ptr:
            nid[0] += 1
            return [nid[0] - 1, v]
        return bytes((v + 37 * j) & 255 for j in range(E))
    ZERO = None if ptr else bytes(E)
    def show(e):
        if ptr:
            return "null" if e is None else "o%d:%d" % (e[0], e[1])
        return e.hex()
    def odd(e):
        return (e is not None and e[1] & 1) if ptr else bool(e[0] & 1)
    L = [mk(PRE[j % 8]) for j in range(start)]
    bad = []
    obs = {o["step"]: o for o in steps}
    def compare(i, op, ret):
        o = obs.get(i)
        if o is None:
            bad.append("step %d %s: no observation from the implementation" % (i, op)); return
        want = [show(e) for e in L]
        if o["snap"] != want:
            bad.append("step %d %s: implementation shows %s, Python list is %s" % (i, op, o["snap"], want))
        if ret is not None and o["ret"] != ret:
            bad.append("step %d %s: returned %s, Python list says %s" % (i, op, o["ret"], ret))
    compare(-1, "start", None)
    for i, op in enumerate(hist.split(";") if hist else []):
        name, _, arg = op.partition("@")
        a = int(arg) if arg else 0
        ret = None
        if name in ("push", "pushp"):
            L.append(mk(PAL[i % 10]))
        elif name == "unshift":
            L.insert(0, mk(PAL[i % 10]))
        elif name == "ins":
            L.insert(a, mk(PAL[i % 10]))
        elif name == "rm":
            ret = show(L.pop(a))
        elif name == "rmf":
            L.pop(a)
        elif name in ("pop", "popp"):
            ret = show(L.pop())
        elif name == "shift":
            ret = show(L.pop(0))
        elif name == "set":
            e = mk(PAL[i % 10])
            if a < len(L):
                L[a] = e
            else:
                while len(L) < a:
                    L.append(ZERO)
                L.append(e)
        elif name == "sort":
            if ptr:
                L.sort(key=lambda e: -1 if e is None else e[1])
                got = obs.get(i, {}).get("snap")
                # ties among equal values are left open by qsort: adopt the implementation's order if it is a sorted
                # permutation of the same objects
                if got is not None and sorted(got) == sorted(show(e) for e in L) and \
                        [(-1 if g == "null" else int(g.split(":")[1])) for g in got] == [(-1 if e is None else e[1]) for e in L]:
                    by = {show(e): e for e in L}
                    L = [by[g] if g != "null" else None for g in got]
            else:
                L.sort()
        elif name == "fe":
            ret = json.dumps([show(e) for e in L], separators=(",", ":"))
            L = [e for k, e in enumerate(L) if not (a == 1 or (a == 2 and k == 0) or (a == 0 and odd(e)))]
        elif name == "reset":
            L = []
        elif name == "map":
            if ptr:
                for e in L:
                    if e is not None:
                        e[1] += 1
            else:
                L = [bytes((c + 1) & 255 for c in e) for e in L]
        if ret is not None and name == "fe":
            o = obs.get(i)
            if o is not None and json.loads(o["ret"]) != json.loads(ret):
                bad.append("step %d %s: visited %s, Python list says %s" % (i, op, o["ret"], ret))
            ret = None
        compare(i, op, ret)
    return bad


def py_dict(mode, start, hist, steps):
    obs = {o["step"]: o for o in steps}
    keys = obs[-1]["keys"]
    D = {k: v for k, v in obs[-1]["snap"].items()}      # the prefill is taken as given: p<i> -> o<i>
    bad = []
    for k, v in D.items():
        if not (k.startswith("p") and v == "o" + k[1:]):
            bad.append("start state holds an unexpected pair %s=%s" % (k, v))
    if start == 0 and D:
        bad.append("start state not empty")
    nid = len(D)
    for i, op in enumerate(hist.split(";") if hist else []):
        name, _, arg = op.partition("@")
        key = "a" if name in ("set_ext_ab1", "rm_ext_ab1") else keys[int(arg[1:])]
        ret = ""
        if name in ("set", "set_ext_ab1"):
            D[key] = "o%d" % nid
            nid += 1
        elif name == "setnull":
            D[key] = "null"
        else:
            if key in D:
                del D[key]; ret = "removed"
            else:
                ret = "out_of_range"
        o = obs.get(i)
        if o is None:
            bad.append("step %d %s: no observation from the implementation" % (i, op)); continue
        if o["ret"] != ret:
            bad.append("step %d %s: %s, Python dict says %s" % (i, op, o["ret"], ret))
        if o["snap"] != D:
            diff = {k: (o["snap"].get(k), D.get(k)) for k in set(o["snap"]) | set(D) if o["snap"].get(k) != D.get(k)}
            bad.append("step %d %s: (implementation, Python dict) differ on %s" % (i, op, diff))
    return bad


def py_model(case, steps):
    f = py_dynar if case["container"] == "dynar" else py_dict
    return f(case["mode"], case["start"], case["hist"], steps)


def confirm(bins, c):
    """Rule 3: the case must fail identically twice when run alone (in its own build; a crash of the plain build may
    also be confirmed by the ASan build, which turns silent heap corruption into a deterministic report).
    -> (flavour, steps, verdict) or None"""
    for flav in [c["flavour"]] + (["asan"] if c["flavour"] == "plain" else []):
        cc = dict(c, flavour=flav)
        s1, v1, _ = run_one(bins[(c["container"], flav)], cc)
        s2, v2, _ = run_one(bins[(c["container"], flav)], cc)
        if v1 and strip_volatile(v1) == strip_volatile(v2):
            return flav, s1, v1
    return None


def case_key(c):
    return "C50 %s/%s start=%s hist=%s" % (c["container"], c["mode"], c["start"], c["hist"])


def strip_volatile(s):
    """What must be identical between two runs of a failing case: where it fails and what was expected. The wrong value
    itself may be uninitialised memory (different on every run) and addresses are volatile."""
    s = re.sub(r"0x[0-9a-f]+", "0x…", s)
    return re.sub(r"=\S+ expected", "=<wrong> expected", s)


# ------------------------------------------------------------------ run
def run(ctx):
    # the budget counts from here: bin/check starts ctx.deadline before (re)building libsimgrid, which takes minutes on a
    # fresh scratch tree and would leave nothing for the exploration
    budget = os.environ.get("VERIF_BUDGET_S")
    ctx.deadline = common.Deadline(float(budget) if budget else (150 if ctx.quick else 1200))
    bins = build()
    common.log("C50 harnesses ready %.1fs after bin/check started" % (__import__("time").time() - ctx.t0))
    tmp = common.tmpdir("c50")
    rnd = random.Random(ctx.seed)
    NSH = 3 * common.NCPU
    cov = {"bounds_completed": [], "bounds_not_started": []}
    tot = dict(nodes=0, checked=0, ref_ops=0, impl_ops=0, nontrivial=0, leak_checked=0)
    flags, states, samples, cands = {}, {}, [], []
    exhaustive = True
    pool = cf.ThreadPoolExecutor(common.NCPU)
    import time, array
    est_sum = act_sum = 0.0
    unconfirmed = []
    for gname, jobs in plan(ctx.quick):
        est = sum(j["cost"] for j in jobs) / common.NCPU * 1.3 + 3
        slow = max(1.0, act_sum / est_sum) if est_sum else 1.0   # the machine is shared: scale by what was observed so far
        need = est * slow
        if cands or cov["bounds_not_started"] or ctx.deadline.left() < need:
            cov["bounds_not_started"].append(gname)     # strictly bound by bound: nothing is started after a skipped one
            exhaustive = False
            continue
        t0 = time.time()
        args = []
        for ji, job in enumerate(jobs):
            per = 1.5 if job["flavour"] == "plain" else 6.0      # an ASan process costs ~1 s just to start
            nsh = max(1, min(3 * common.NCPU, int(job["cost"] / per)))
            binp = bins[(job["container"], job["flavour"])]
            args += [(binp, job, s, nsh, os.path.join(tmp, "st-%d-%d" % (ji, s))) for s in range(nsh)]
        rnd.shuffle(args)                                        # VERIF_SEED only orders the shards
        args.sort(key=lambda a: -a[1]["cost"] / a[3])
        res = list(pool.map(run_shard, args))
        nh = 0
        for (b, job, s, n, sf), r in zip(args, res):
            if "crash" in r:
                if r["hist"] is None:
                    common.log("verif: C50 shard died without naming a history:\n" + r["stderr"])
                    sys.exit(2)
                c = dict(container=job["container"], mode=job["mode"], start=job["start"], flavour=job["flavour"],
                         hist=r["hist"])
                # heap corruption in the plain build kills the enumerating process some histories later: the history
                # named by the crash handler is a hint, not a case. It is a case only if it fails alone (below);
                # otherwise the ASan bounds are run to localise it.
                (cands if confirm(bins, c) else unconfirmed).append((c, "crash: " + r["crash"]))
                continue
            nh += r["checked"]
            for k in tot:
                tot[k] += r[k]
            for k, v in r["flags"].items():
                fk = job["container"] + ":" + k
                flags[fk] = flags.get(fk, 0) + v
            if os.path.exists(sf):
                a = array.array("Q")
                with open(sf, "rb") as f:
                    a.frombytes(f.read())
                states.setdefault((job["container"], job["mode"], job["start"]), set()).update(a)
                os.unlink(sf)
            for h in r["samples"][:1]:
                samples.append(dict(container=job["container"], mode=job["mode"], start=job["start"],
                                    flavour=job["flavour"], hist=h))
            for v in r["violations"]:
                c = dict(container=job["container"], mode=job["mode"], start=job["start"], flavour=job["flavour"],
                         hist=v["hist"])
                cands.append((c, v["what"]))
        cov["bounds_completed"].append({"bound": gname, "histories": nh, "wall_s": round(time.time() - t0, 1), "jobs": [
            "%s/%s start=%d len %d..%d" % (j["container"], j["mode"], j["start"], j["minlen"], j["maxlen"]) for j in jobs]})
        common.log("C50 bound done: %s: %d histories, %.1fs" % (gname, nh, time.time() - t0))
        est_sum += est
        act_sum += time.time() - t0
    # second reference: a handful of the enumerated histories replayed against the Python list/dict
    rnd.shuffle(samples)
    crossed = 0
    outs = list(pool.map(lambda c: run_one(bins[(c["container"], c["flavour"])], c), samples[:40]))
    pool.shutdown()
    for c, (steps, verdict, _) in zip(samples[:40], outs):
        bad = py_model(c, steps)
        if verdict == "" and bad:
            common.log("verif: C50 the two references disagree on %s: %s" % (case_key(c), bad[:2]))
            sys.exit(2)
        crossed += 1

    # violations: shortest first, one per (container, mode, start, kind of failure); each re-run alone twice
    violations = []
    cands.sort(key=lambda cw: (cw[0]["hist"].count(";"), len(cw[0]["hist"])))
    seen_kind = set()
    for c, what in cands:
        kind = (c["container"], c["mode"], c["start"], re.sub(r"\d+", "#", what)[:60])
        if kind in seen_kind or len(violations) >= 4:
            continue
        seen_kind.add(kind)
        ok = confirm(bins, c)
        if not ok:
            common.log("verif: C50 %s does not fail identically when run alone twice (enumeration said %r): harness bug"
                       % (case_key(c), what))
            sys.exit(2)
        flav, s1, v1 = ok
        c = dict(c, flavour=flav)
        pybad = py_model(c, s1) if not v1.startswith("crash") else ["(crashed)"]
        if not pybad and not v1.startswith("memory still"):
            common.log("verif: C50 %s: harness reference reports %r but the Python reference agrees with the "
                       "implementation: harness bug" % (case_key(c), v1))
            sys.exit(2)
        violations.append(common.Violation(case_key(c), "%s [%s build]" % (re.sub(r"0x[0-9a-f]+", "0x…", v1), flav), c))
    if unconfirmed and not violations:
        common.log("verif: C50 the plain build crashed (%s near %s) but no single history fails alone, even under ASan: "
                   "not localised, harness problem" % (unconfirmed[0][1], case_key(unconfirmed[0][0])))
        sys.exit(2)

    nstates = sum(len(s) for s in states.values())
    cov.update({
        "states": nstates, "transitions": tot["ref_ops"], "impl_api_calls": tot["impl_ops"],
        "traces_validated_against_impl": tot["checked"], "histories_replayed_incl_prefixes": tot["nodes"],
        "distinct_nontrivial": tot["nontrivial"],
        "rule": "every history over the op alphabet (dynar: push, push_ptr, unshift, insert_at(i), remove_at(i) with and "
                "without destination, pop, pop_ptr, shift, set_at(i<=len+1), sort, foreach-with-removal x3 predicates, "
                "reset, map; dict: set x6 keys incl. two real hash-collision keys, set NULL, set_ext, remove x6 incl. "
                "absent keys, remove_ext) is generated by an odometer, replayed on a fresh container and compared after "
                "its last step (return value + full snapshot through get/get_ptr/foreach/member resp. "
                "get/get_ext/get_elm/cursor walk + free_f accounting + destruction). states = distinct reference "
                "states (64-bit hash of the list / map, per container, mode and start). distinct_nontrivial = "
                "histories whose last step really moved elements, grew the array, zero-filled, reordered by sort, "
                "removed during foreach, touched a collision chain, rehashed, replaced, threw out_of_range or called "
                "free_f (measured on the implementation)",
        "events_seen_on_last_step": flags,
        "states_per_configuration": {"%s/%s start=%d" % k: len(v) for k, v in states.items()},
        "asan_leak_checked_histories": tot["leak_checked"],
        "python_reference_crosschecked": crossed,
        "samples": [case_key(c) for c in samples[:8]],
        "exhaustive": exhaustive and not violations,
    })
    shutil.rmtree(tmp, ignore_errors=True)
    if tot["nontrivial"] < 2 and not violations:
        common.log("verif: C50 vacuous run (fewer than 2 non-trivial histories)")
        sys.exit(2)
    common.finish(ctx, "model_checking", cov, [
        "the reference (std::vector / std::map in the harness, list / dict in Python) is the specification of "
        "'growable array' / 'string-keyed map'",
        "only well-formed calls are generated (no index out of range, no pop on empty): API preconditions enforced by "
        "xbt_assert are outside the property",
        "sort uses qsort: the order among equal keys is left open and any sorted permutation is accepted",
        "ASan flavour: /repo's dynar.cpp, dict.cpp, dict_cursor.c, dict_elm.c compiled into the harness; plain flavour: "
        "libsimgrid.so's own copy",
        "the start-state prefill (6 elements / 102 or 204 occupied cells) positions the container one step before an "
        "expansion / rehash by looking at private fields; the oracle never does",
    ], violations, ENGINE)


def replay(ctx, rf):
    c = rf["case"]
    bins = build()
    steps, verdict, err = run_one(bins[(c["container"], c["flavour"])], c, full_stacks=True)
    print("replaying %s (%s build)" % (case_key(c), c["flavour"]))
    for o in steps:
        print("  step %2d %-14s ret=%s  container=%s" % (o["step"], o["op"], o["ret"], json.dumps(o["snap"])[:300]))
    bad = py_model(c, steps) if steps else []
    for b in bad:
        print("  MISMATCH with the Python reference: " + b[:400])
    print("verdict of the harness reference: %s" % (verdict or "ok"))
    if verdict.startswith("crash") and err:
        print(err[:3500])
    return 1 if (verdict or bad) else 0
