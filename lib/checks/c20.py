"""C20 — isolated activities follow the documented formulas (engine E4/res, level exploration).

Full grid of DESIGN §5 C20; the oracle is the formula of the statement evaluated in exact rationals with the factor
tables documented in docs/source/Models.rst and docs/source/Configuring_SimGrid.rst (never read from the code)."""
import itertools
from fractions import Fraction as F
import common, reslib
from reslib import Case, Scen, pack, close

NEEDS_SIMGRID = True
D = lambda s: F(str(s))  # exact decimal

# ---- documented parameters (Models.rst "LV08": 13.01 / 0.97, cross-traffic divides the share by 1.05;
#      Configuring_SimGrid.rst "SMPI default value" tables; CM02/raw: no correction factor; default TCP-gamma 4194304)
SMPI_BW = "65472:0.940694;15424:0.697866;9376:0.58729;5776:1.08739;3484:0.77493;1426:0.608902;732:0.341987;257:0.338112;0:0.812084"
SMPI_LAT = "65472:11.6436;15424:3.48845;9376:2.59299;5776:2.18796;3484:1.88101;1426:1.61075;732:1.9503;257:1.95341;0:2.01467"
GAMMA_DEFAULT = 4194304
XT = D("1.05")


def table(spec):
    t = sorted((int(a), D(b)) for a, b in (x.split(":") for x in spec.split(";")))
    return t


def interval_factor(tab, size, boundary_low=False):
    """Documented reading (Configuring_SimGrid.rst): '0:1;1000:2;5000:3' means factor 1 on [0,1000), 2 on [1000,5000),
    3 for 5000 and beyond; 1 before the first boundary. boundary_low=True gives the other reading (a size equal to a
    boundary still belongs to the interval below) used only to *name* a deviation, never to accept it."""
    val = F(1)
    for b, f in tab:
        if (size > b) if boundary_low else (size >= b):
            val = f
    return val


def factors(model, size, boundary_low=False):
    if model in ("CM02", "raw"):
        return F(1), F(1)
    if model == "LV08":
        return D("13.01"), D("0.97")
    if model == "SMPI":
        return interval_factor(table(SMPI_LAT), size, boundary_low), interval_factor(table(SMPI_BW), size, boundary_low)
    raise ValueError(model)


def comm_reference(m, variant="statement", boundary_low=False):
    """latency*latency_factor + s/min(bandwidth*bandwidth_factor [/1.05 with cross-traffic], TCP_gamma/(2*latency))."""
    L = sum(F(x) for x in m["lats"])
    BW = min(F(x) for x in m["bws"])
    s = F(m["size"])
    lf, bf = factors(m["model"], m["size"], boundary_low)
    xt = XT if m["xt"] else F(1)
    gamma = F(m["gamma"])
    rate = BW * bf / xt
    limited = False
    if gamma > 0 and L > 0:
        g = gamma / (2 * L)
        if variant == "statement":
            if g < rate:
                rate, limited = g, True
        else:  # the factor applied on top of min(physical share, window bound)
            rate = bf * min(BW / xt, g)
            limited = g < BW / xt
    return L * lf + s / rate, limited, (lf, bf)


# ---------------------------------------------------------------------------------------------------- scenario builders
def net_cfg(model, xt, gamma, extra=()):
    cfg = [("network/model", model)]
    if xt is not None:
        cfg.append(("network/crosstraffic", "1" if xt else "0"))
    if gamma is not None:
        cfg.append(("network/TCP-gamma", gamma))
    return cfg + list(extra)


def comm_scen(sid, model, xt, gamma, size, bw, lat, n, slow_pos, policy="SHARED", note=""):
    """Own pair of hosts, own n links; the slow link (bandwidth bw) at slow_pos, the others at 2*bw."""
    c = Scen(sid)
    c.add("host", c.n("a"), 1, 1e9).add("host", c.n("b"), 1, 1e9)
    bws, lats = [], []
    for i in range(n):
        b = float(bw) if i == slow_pos else 2.0 * bw
        bws.append(b)
        lats.append(float(lat))
        c.add("link", c.n("l%d" % i), b, float(lat), policy)
    c.add("route", c.n("a"), c.n("b"), ",".join(c.n("l%d" % i) for i in range(n)))
    c.add("act", c.n("c"), "comm", 0, c.n("a"), c.n("b"), float(size))
    eff_xt = xt if xt is not None else (model != "raw")
    eff_gamma = gamma if gamma is not None else (0 if model == "raw" else GAMMA_DEFAULT)
    c.meta = {"kind": "comm", "act": c.n("c"), "model": model, "xt": bool(eff_xt), "gamma": eff_gamma, "size": size,
              "bws": bws, "lats": lats, "n": n,
              "label": "model=%s xt=%s gamma=%s s=%g bw=%g lat=%g n=%d slow@%d%s%s" % (
                  model, {None: "default", 0: "off", 1: "on"}[xt], "default" if gamma is None else gamma, size, bw, lat, n,
                  slow_pos, "" if policy == "SHARED" else " " + policy, note)}
    return c


def exec_scen(sid, W, S, cores, optim):
    c = Scen(sid)
    c.add("host", c.n("a"), cores, float(S))
    c.add("act", c.n("x"), "exec", 0, c.n("a"), float(W))
    c.meta = {"kind": "exec", "act": c.n("x"), "ref": [W, S], "cores": cores,
              "label": "exec W=%g S=%g cores=%d cpu/optim=%s" % (W, S, cores, optim)}
    return c


def sleep_scen(sid, d, optim):
    c = Scen(sid)
    c.add("host", c.n("a"), 1, 1e9)
    c.add("act", c.n("s"), "sleep", 0, c.n("a"), float(d))
    c.meta = {"kind": "sleep", "act": c.n("s"), "ref": [d], "label": "sleep d=%g cpu/optim=%s" % (d, optim)}
    return c


def io_scen(sid, size, rbw, wbw, op):
    c = Scen(sid)
    c.add("host", c.n("a"), 1, 1e9)
    c.add("disk", c.n("d"), c.n("a"), float(rbw), float(wbw))
    c.add("act", c.n("i"), "io", 0, c.n("d"), op, float(size))
    c.meta = {"kind": "io", "act": c.n("i"), "ref": [size, rbw if op == "read" else wbw],
              "label": "io %s s=%g read_bw=%g write_bw=%g" % (op, size, rbw, wbw)}
    return c


def ptask_scen(sid, parts):
    c = Scen(sid)
    for i, (W, S) in enumerate(parts):
        c.add("host", c.n("h%d" % i), 1, float(S))
    c.add("act", c.n("p"), "ptask", 0, ",".join(c.n("h%d" % i) for i in range(len(parts))),
          ",".join(reslib.fnum(float(W)) for W, S in parts))
    c.meta = {"kind": "ptask", "act": c.n("p"), "ref": [list(p) for p in parts],
              "label": "ptask " + " ".join("%g/%g" % tuple(p) for p in parts)}
    return c


SIZES = [1, 1e3, 1e6, 1e9]
BWS = [1e3, 1.25e8, 1e10]
LATS = [0, 1e-6, 1e-2]
MODELS = ["CM02", "LV08", "SMPI", "raw"]
WS = [1, 1e6, 1e9, 3e12]
SS = [1e6, 1e9, 7e9]


def bounds_for(ctx):
    B = []

    def g_exec():
        out = []
        for optim, coreset in (("Lazy", (1, 4)), ("Full", (1, 4)), ("TI", (1,))):
            sc = [exec_scen("x%d" % i, W, S, cores, optim)
                  for i, (W, S, cores) in enumerate(itertools.product(WS, SS, coreset))]
            sc += [sleep_scen("s%d" % i, d, optim) for i, d in enumerate((0, 1e-6, 1e-3, 1, 1.5, 1e3, 1e6))]
            out += pack("e" + optim, [("cpu/optim", optim)], sc, 64)
        sc = [io_scen("i%d" % i, s, rb, wb, op) for i, (s, (rb, wb), op) in
              enumerate(itertools.product(SIZES, [(1e3, 5e2), (1e8, 5e7), (4e7, 8e7)], ("read", "write")))]
        out += pack("ioalone", [], sc, 1)          # each I/O alone in its simulation
        sc2 = [io_scen("j%d" % i, s, rb, wb, op) for i, (s, (rb, wb), op) in
               enumerate(itertools.product(SIZES, [(1e3, 5e2), (1e8, 5e7), (4e7, 8e7)], ("read", "write")))]
        for x in sc2:
            x.meta["company"] = True
            x.meta["label"] += " (+23 unrelated I/Os on other disks)"
        out += pack("iocomp", [], sc2, 64)         # same I/Os, sharing the simulation (not the disks) with each other
        return out

    def g_ptask():
        parts = list(itertools.product(WS, SS))
        sc, i = [], 0
        for n in (1, 2, 3):
            for combo in itertools.product(parts, repeat=n):
                sc.append(ptask_scen("p%d" % i, combo)); i += 1
        return pack("pt", [("host/model", "ptask_L07")], sc, 100)

    def g_comm(n):
        def gen():
            out = []
            for model, xt, gamma in itertools.product(MODELS, (1, 0), (0, None)):
                grid = itertools.product(SIZES, BWS, LATS) if ctx.quick else \
                    itertools.product(SIZES + [65536, 3e7], BWS + [1e6], LATS + [1e-4])
                sc = [comm_scen("c%d" % i, model, xt, gamma, s, bw, lat, n, n // 2) for i, (s, bw, lat) in enumerate(grid)]
                out += pack("n%d%s%s%s_" % (n, model, xt, "g0" if gamma == 0 else "gd"), net_cfg(model, xt, gamma), sc, 64)
            return out
        return gen

    def g_boundary():
        # sizes on / next to every boundary of the documented SMPI tables (the off-by-one neighbourhood)
        bnds = [b for b, _ in table(SMPI_BW) if b > 0]
        sizes = sorted(set(x for b in bnds for x in (b - 1, b, b + 1)))
        if ctx.quick:
            sizes = [s for s in sizes if any(abs(s - b) <= 1 for b in (257, 65472))]
        sc = [comm_scen("b%d" % i, "SMPI", 0, 0, s, 1.25e8, lat, n, 0)
              for i, (s, lat, n) in enumerate(itertools.product(sizes, (1e-6, 1e-2), (1, 2)))]
        return pack("bd", net_cfg("SMPI", 0, 0), sc, 64)

    def g_variants():
        # thorough extras: the slow link at every position, network/optim Full, FATPIPE links, default cross-traffic/gamma
        out = []
        for model in MODELS:
            grid = list(itertools.product((1e3, 1e9), BWS, (1e-6, 1e-2), (2, 5, 8)))
            sc, i = [], 0
            for s, bw, lat, n in grid:
                for pos in range(n):
                    sc.append(comm_scen("v%d" % i, model, None, None, s, bw, lat, n, pos)); i += 1
            out += pack("vp" + model, net_cfg(model, None, None), sc, 64)
            sc = [comm_scen("f%d" % i, model, 1, None, s, bw, lat, n, 0, note=" network/optim:Full")
                  for i, (s, bw, lat, n) in enumerate(grid)]
            out += pack("vf" + model, net_cfg(model, 1, None, [("network/optim", "Full")]), sc, 64)
            sc = [comm_scen("t%d" % i, model, 0, None, s, bw, lat, n, n - 1, policy="FATPIPE")
                  for i, (s, bw, lat, n) in enumerate(grid)]
            out += pack("vt" + model, net_cfg(model, 0, None), sc, 64)
        return out

    B.append(("exec+sleep+io", g_exec))
    B.append(("ptask 1..3 parts", g_ptask))
    for n in range(1, 9):
        B.append(("comm route length %d" % n, g_comm(n)))
    B.append(("SMPI interval boundaries", g_boundary))
    if not ctx.quick:
        B.append(("comm variants (slow-link position, optim Full, FATPIPE, defaults)", g_variants))
    return B


# ---------------------------------------------------------------------------------------------------- oracle
def judge(c, r, case=None):
    m = c.meta
    if r["status"] != "exit=0":
        return [("C20 %s harness-status" % m["label"], "harness ended with %s: %s" % (r["status"], r["raw"][-300:]))], None, "crash"
    a = r["acts"][m["act"]]
    if a["state"] != "FINISHED":
        return [("C20 %s not-finished" % m["label"], "activity ended in state %s" % a["state"])], None, "unfinished"
    dur = F(a["finish"]) - F(a["start"])
    k = m["kind"]
    if k == "comm":
        ref, limited, (lf, bf) = comm_reference(m)
        naive = sum(F(x) for x in m["lats"]) + F(m["size"]) / min(F(x) for x in m["bws"])
        cls = "comm:" + ("window-limited" if limited else "bandwidth-limited") + ("/factors" if (lf, bf) != (1, 1) else "") + \
              ("/crosstraffic" if m["xt"] else "")
        nt = not close(naive, ref)
        if close(dur, ref):
            return [], nt, cls
        what = "observed %.17g s, documented formula gives %.17g s (rel. diff %.3g)" % (float(dur), float(ref), float(abs(dur - ref) / ref))
        alt, _, _ = comm_reference(m, "factor-on-top")
        if alt != ref and close(dur, alt):
            return [("C20 comm window-limited: bandwidth-factor multiplies the TCP-gamma bound",
                     m["label"] + ": " + what + "; equals lat*lf + s/(bf*min(bw/xt, gamma/(2 lat)))")], nt, cls + "!"
        altb, _, _ = comm_reference(m, "statement", boundary_low=True)
        if m["model"] == "SMPI" and altb != ref and close(dur, altb):
            return [("C20 comm SMPI size on an interval boundary takes the factors of the interval below",
                     m["label"] + ": " + what + "; documented intervals are [boundary, next)")], nt, cls + "!"
        return [("C20 comm " + m["label"], what)], nt, cls + "!"
    if k == "exec":
        W, S = m["ref"]
        ref = F(W) / F(S)
    elif k == "sleep":
        ref = F(m["ref"][0])
    elif k == "io":
        ref = F(m["ref"][0]) / F(m["ref"][1])
    elif k == "ptask":
        ref = max(F(W) / F(S) for W, S in m["ref"])
    if close(dur, ref):
        nt = (k == "ptask" and len(m["ref"]) > 1 and len(set(F(W) / F(S) for W, S in m["ref"])) > 1) or \
             (k == "io") or (k == "exec" and m["cores"] > 1)
        return [], nt, k
    what = "observed %.17g s, documented formula gives %.17g s" % (float(dur), float(ref))
    if k == "io" and m.get("company") and abs(dur - ref) <= F(len(r["acts"]) + 2) / 2 / F(m["ref"][1]) + F(1, 10**9):
        # the only difference with the exact "alone" twin of this scenario is the number of simulation steps it spans
        return [("C20 io duration depends on unrelated simulation steps (progress rounded to whole bytes at every step)",
                 m["label"] + ": " + what)], True, "io-in-company!"
    return [("C20 " + m["label"], what)], None, k + "!"


RULE = ("full grid of DESIGN C20 (exec W x S x cores x cpu/optim; sleeps; I/O size x rates x read/write; ptasks of 1..3 pure "
        "computations; comm size x bandwidth x latency x route length 1..8 x {CM02,LV08,SMPI,raw} x cross-traffic x TCP-gamma "
        "{0,default}; SMPI table boundaries +-1). Non-trivial = the documented formula differs from the naive lat+s/bw "
        "(factor table, cross-traffic or TCP window binding), a ptask whose parts have different ratios, an I/O (read/write "
        "rate selection), a multi-core host.")
ASSUME = ["scenarios sharing a configuration run in one simulation on disjoint hosts/links/disks (a failing one is re-run alone)",
          "documented factor tables transcribed from docs/source/Models.rst and Configuring_SimGrid.rst",
          "tolerance 1e-9 relative + precision/timing (1e-9 s) absolute, as in DESIGN",
          "platform built through the C++ API, default routing zone (Full)"]


def run(ctx):
    reslib.harness()
    reslib.drive(ctx, bounds_for(ctx), judge, rule=RULE, assumptions=ASSUME)


def replay(ctx, case):
    reslib.harness()
    return reslib.replay_case(ctx, case, judge)
