"""C27 — values with units are parsed to the documented magnitudes (engine E10 "xbtx").

Oracle = tables of the documented multipliers (docs/source/XML_reference.rst: time table, bandwidth lists; the unit list in
src/kernel/xml/simgrid.dtd: speed units incl. long prefixes) held as exact rationals, plus a number grammar.  Enumerated
completely: number formats x every unit of every kind; every (prefix x base-unit) combination of every family offered to
every kind (units of another kind / another family must be rejected); every string of length <= 3 (thorough: <= 4) over
two small alphabets offered to every kind.  Three oracle classes: MUST-accept-with-value, MUST-reject, and OPEN (the
statement makes no claim: leading blanks, "1.", inf/nan/hex, undocumented Z/Y prefixes on sizes and bandwidths, the
docs' "KBps"): for OPEN cases an accepted value is still checked when the reading is unambiguous.
"""
import os, sys, re, json, itertools, subprocess
from fractions import Fraction as F
import common

ENGINE = "E10 xbtx"
KINDS = ["time", "size", "bandwidth", "speed"]
DEFAULT = {"time": "s", "size": "B", "bandwidth": "Bps", "speed": "f"}

DEC = ["k", "M", "G", "T", "P", "E", "Z", "Y"]
BIN = ["Ki", "Mi", "Gi", "Ti", "Pi", "Ei", "Zi", "Yi"]
LONGDEC = ["kilo", "mega", "giga", "tera", "peta", "exa", "zetta", "yotta"]      # as documented in simgrid.dtd
LONGBIN = ["kibi", "mebi", "gibi", "tebi", "pebi", "exbi", "zebi", "yobi"]


def tables():
    """kind -> (MUST {unit: multiplier}, IF_ACCEPTED {unit: multiplier}, OPEN set)"""
    T = {}
    T["time"] = ({"ps": F(1, 10**12), "ns": F(1, 10**9), "us": F(1, 10**6), "ms": F(1, 1000), "s": F(1), "m": F(60),
                  "h": F(3600), "d": F(86400), "w": F(604800)}, {}, set())
    sp = {"f": F(1), "flops": F(1)}
    for i, p in enumerate(DEC):
        sp[p + "f"] = F(1000) ** (i + 1)
    for i, p in enumerate(LONGDEC):
        sp[p + "flops"] = F(1000) ** (i + 1)
    T["speed"] = (sp, {}, set())
    for kind, suffix in (("size", ""), ("bandwidth", "ps")):
        must, ifacc, opn = {}, {}, set()
        for base, v in (("B", F(1)), ("b", F(1, 8))):          # 1 B = 8 b
            must[base + suffix] = v
            for i, p in enumerate(DEC):
                (must if i < 6 else ifacc)[p + base + suffix] = v * F(1000) ** (i + 1)   # docs stop at Exa
            for i, p in enumerate(BIN):
                (must if i < 6 else ifacc)[p + base + suffix] = v * F(1024) ** (i + 1)
            opn.add("K" + base + suffix)     # the docs print "KBps", the DTD and every platform "kBps": no claim
        T[kind] = (must, ifacc, opn)
    return T


TAB = tables()
CANON = re.compile(r"[+-]?(\d+(\.\d+)?|\.\d+)([eE][+-]?\d+)?", re.ASCII)
LIBERAL = re.compile(r"[ ]*[+-]?(\d+\.?\d*|\.\d+)([eE][+-]?\d+)?", re.ASCII)     # what strtod reads of the strings generated here
STRTOD_EXTRA = re.compile(r"[ ]*[+-]?(inf|nan|0x)", re.I)


def classify(kind, s):
    """-> ("accept", exact value) | ("reject", None) | ("open", exact value or None)"""
    must, ifacc, opn = TAB[kind]
    if STRTOD_EXTRA.match(s):
        return ("open", None)
    m = LIBERAL.match(s)
    if not m:
        return ("reject", None)
    num, rest = s[:m.end()], s[m.end():]
    x = F(num.strip())
    big = abs(x) != 0 and not (F(10) ** -290 < abs(x) < F(10) ** 280)      # near the double range: ERANGE territory
    canonical = CANON.fullmatch(num) is not None and not big
    unit = rest if rest else DEFAULT[kind]
    if unit in must:
        return ("accept" if canonical else "open", None if big else x * must[unit])
    if unit in ifacc:
        return ("open", None if big else x * ifacc[unit])
    if unit in opn:
        return ("open", None)
    return ("reject", None)


def close(got, exact):
    if exact == 0:
        return got == 0
    return abs(F(got) - exact) <= abs(exact) * F(1, 2**51)      # <= 2 ulp: strtod + one product, each correctly rounded


def cases(quick):
    """Complete enumeration; yields (family, kind, string) without duplicates."""
    seen = set()
    def emit(fam, kind, s):
        if (kind, s) not in seen:
            seen.add((kind, s))
            yield (fam, kind, s)
    formats = ["1", "1.5", ".5", "1e3", "1E-3", "+2", "-0", "0", "12.25", "7e+2", "123456789", "0.001", "-3.5", "1e-9",
               "00012", "2.50"]
    liberal = [" 1", "1.", "1.e2", "  2.5"]
    # 1. formats x every documented / conditionally accepted unit of every kind (+ unit-less)
    for kind in KINDS:
        must, ifacc, opn = TAB[kind]
        for u in [""] + sorted(must) + sorted(ifacc) + sorted(opn):
            for f in formats + liberal:
                yield from emit("format x unit", kind, f + u)
    # 2. every prefix x base unit of every family, offered to every kind
    prefixes = [""] + DEC + BIN + LONGDEC + LONGBIN + ["K", "ki", "zeta", "Kilo", "m", "u", "n", "p", "c", "da", "h", "D"]
    bases = ["b", "B", "bps", "Bps", "f", "flops", "s", "m", "h", "d", "w", "F", "Flops", "flop", "BPS", "bPs", "S", "bp", ""]
    for kind in KINDS:
        for p in prefixes:
            for b in bases:
                for f in ("1", "2.5e1"):
                    yield from emit("prefix x base", kind, f + p + b)
    # 3. all short strings over two alphabets
    n = 3 if quick else 4
    for alpha in ("1.ekBbps x", "10+-EMifmu"):
        for L in range(0, n + 1):
            for t in itertools.product(alpha, repeat=L):
                s = "".join(t)
                for kind in KINDS:
                    yield from emit("strings<=%d over '%s'" % (n, alpha), kind, s)
    # 4. what strtod reads beyond decimal numbers, range errors, separators, blanks around the unit
    extra = ["inf", "nan", "INF", "-inf", "0x10", "0x1p3", "1e999", "1e-999", "1e400", "-1e400", "1,5", "1 ", "1 ", "--1",
             "+-1", "1e+", "1e-", "e1", "1d3", "1_000", "١"]
    for kind in KINDS:
        d = DEFAULT[kind]
        for e in extra:
            for s in (e, e + d, e + " " + d):
                yield from emit("strtod extras", kind, s)
        for s in ("1" + d + " ", "1 " + d, "1" + d + d, d + "1", "1" + d + "1", "1" + d.upper() + "x"):
            yield from emit("strtod extras", kind, s)


def list_cases():
    """(kind, string, expectation) for the two list-valued entry points: expectation = list of exact values, "reject"
    or None (open)."""
    out = []
    tok = {"bandwidths": [("1Bps", F(1)), ("2kbps", F(250)), ("1.5MiBps", F(3, 2) * 1024**2), ("3", F(3)), ("1x", None),
                          ("", None)],
           "speeds": [("1f", F(1)), ("2kf", F(2000)), ("1.5Gf", F(3, 2) * 10**9), ("3", F(3)), ("1x", None), ("", None),
                      ("1gigaflops", F(10**9))]}
    for kind, toks in tok.items():
        for n in (1, 2, 3):
            for combo in itertools.product(toks, repeat=n):
                for sep in (",", ";"):
                    if n == 1 and sep == ";":
                        continue
                    s = sep.join(t for t, _ in combo)
                    if any(v is None for _, v in combo):
                        exp = "reject"
                    elif sep == ";":
                        exp = None if kind == "bandwidths" else "reject"    # ';' is not documented for either; for
                        # speeds it is not even split on, so "1f;2f" is a number followed by the unknown unit "f;2f"
                    else:
                        exp = [v for _, v in combo]
                    out.append((kind, s, exp))
    return out


def evaluate(binp, items):
    """items: list of (kind, string) -> list of ("ok", [floats]) | ("err", message)"""
    inp = "".join("%s\t%s\n" % (k, s) for k, s in items)
    r = subprocess.run([binp], input=inp.encode(), stdout=subprocess.PIPE, stderr=subprocess.PIPE)
    lines = r.stdout.decode(errors="replace").split("\n")
    if r.returncode != 0 or len(lines) < len(items):
        common.log("verif: C27 harness died (exit %s) after %d of %d cases; stderr: %s" %
                   (r.returncode, len(lines) - 1, len(items), r.stderr.decode(errors="replace")[-800:]))
        sys.exit(2)
    out = []
    for l in lines[:len(items)]:
        if l.startswith("ok"):
            out.append(("ok", [float.fromhex(x) for x in l.split()[1:]]))
        else:
            out.append(("err", l[4:]))
    return out


def judge(kind, s, res):
    """-> (class, None | (key, what))"""
    cls, exact = classify(kind, s)
    st, val = res
    m = LIBERAL.match(s)
    rest = s[m.end():] if m else None
    if cls == "accept":
        unit = rest if rest else "(none: default %s)" % DEFAULT[kind]
        if st != "ok":
            return cls, ("C27 %s unit=%s documented unit rejected" % (kind, unit), "'%s' -> %s" % (s, val))
        if not close(val[0], exact):
            return cls, ("C27 %s unit=%s wrong magnitude" % (kind, unit),
                         "'%s' -> %r, documented value %s" % (s, val[0], float(exact)))
    elif cls == "reject":
        if st == "ok":
            if m:
                return cls, ("C27 %s unknown unit '%s' accepted" % (kind, rest), "'%s' -> %r" % (s, val[0]))
            return cls, ("C27 %s accepts '%s' which holds no number" % (kind, s), "'%s' -> %r" % (s, val[0]))
        if not val.startswith("ParseError"):
            return cls, ("C27 %s rejects '%s' with the wrong exception" % (kind, s), val)
    else:
        if st == "ok" and exact is not None and not close(val[0], exact):
            return cls, ("C27 %s unit=%s wrong magnitude" % (kind, rest or "(none)"),
                         "'%s' -> %r, expected %s if accepted at all" % (s, val[0], float(exact)))
    return cls, None


def run(ctx):
    binp = common.build_harness("c27", ["xbtx/c27.cpp"])
    todo = list(cases(ctx.quick))
    results = evaluate(binp, [(k, s) for _, k, s in todo])
    fam_count, cls_count, open_seen, viol = {}, {"accept": 0, "reject": 0, "open": 0}, {}, {}
    nontrivial = set()
    samples = []
    for (fam, kind, s), res in zip(todo, results):
        fam_count[fam] = fam_count.get(fam, 0) + 1
        cls, bad = judge(kind, s, res)
        cls_count[cls] += 1
        exact = classify(kind, s)[1]
        m = LIBERAL.match(s)
        if cls == "accept" and exact is not None and m and s[m.end():] and TAB[kind][0][s[m.end():]] != 1:
            nontrivial.add((kind, s))
        if cls == "reject" and m and s[m.end():]:
            nontrivial.add((kind, s))
        if cls == "open":
            k = "accepted" if res[0] == "ok" else "rejected"
            open_seen.setdefault(k, [])
            if len(open_seen[k]) < 12 and fam != "format x unit":
                open_seen[k].append("%s '%s'" % (kind, s))
            open_seen[k + "_count"] = open_seen.get(k + "_count", 0) + 1
        if bad:
            viol.setdefault(bad[0], []).append((kind, s, bad[1]))
        if fam_count[fam] in (1, 50, 400) and len(samples) < 16:
            samples.append({"kind": kind, "string": s, "class": cls,
                            "observed": res[1] if res[0] == "err" else res[1][0]})
    # with an entity kind (deprecation-warning path) the value must be the same: all unit-less accept cases again
    again = [(k + "!", s) for _, k, s in todo if classify(k, s)[0] == "accept" and CANON.fullmatch(s)]
    for (k, s), res in zip(again, evaluate(binp, again)):
        cls, bad = judge(k[:-1], s, res)
        if bad:
            viol.setdefault(bad[0] + " (with entity kind)", []).append((k, s, bad[1]))
    # list-valued entry points
    lc = list_cases()
    lres = evaluate(binp, [(k, s) for k, s, _ in lc])
    list_open = 0
    for (kind, s, exp), (st, val) in zip(lc, lres):
        if exp is None:
            list_open += 1
        elif exp == "reject":
            if st == "ok":
                viol.setdefault("C27 %s accepts the list '%s'" % (kind, s), []).append((kind, s, "-> %r" % (val,)))
        elif st != "ok" or len(val) != len(exp) or not all(close(g, e) for g, e in zip(val, exp)):
            viol.setdefault("C27 %s list '%s' wrong" % (kind, s), []).append(
                (kind, s, "-> %s, expected %s" % (val, [float(e) for e in exp])))
    # every violation: re-run alone, twice, identical
    violations = []
    for key in sorted(viol, key=lambda k: (len(viol[k][0][1]), k)):
        kind, s, what = viol[key][0]
        a = evaluate(binp, [(kind, s)])[0]
        b = evaluate(binp, [(kind, s)])[0]
        if repr(a) != repr(b):
            common.log("verif: C27 %s '%s' does not reproduce identically: %r / %r" % (kind, s, a, b))
            sys.exit(2)
        more = "" if len(viol[key]) == 1 else " (+%d more strings, e.g. %s)" % (
            len(viol[key]) - 1, ", ".join("'%s'" % x[1] for x in viol[key][1:4]))
        violations.append(common.Violation(key, what + more, {"kind": kind, "string": s,
                                                              "all_strings": [x[1] for x in viol[key]][:50]}))
    ev = len(todo) + len(again) + len(lc)
    cov = {"evaluations": ev, "distinct_nontrivial": len(nontrivial),
           "rule": "complete enumeration of the four families below, offered to each of time/size/bandwidth/speed; a case "
                   "is non-trivial when the unit text decides the outcome: accepted with a documented multiplier != 1, or "
                   "rejected although it starts with a well-formed number (distinct (kind, string) pairs counted)",
           "families": fam_count, "oracle_classes": cls_count, "open_class_outcomes": open_seen,
           "entity_kind_variants": len(again), "list_cases": len(lc), "list_cases_open": list_open,
           "units_in_table": {k: len(TAB[k][0]) for k in KINDS},
           "samples": samples, "exhaustive": True}
    if len(nontrivial) < 2:
        common.log("verif: C27 vacuous run")
        sys.exit(2)
    common.finish(ctx, "exploration", cov, [
        "documented multipliers: XML_reference.rst (time table; bandwidth lists up to Exa), simgrid.dtd (speed: kf..Yf, "
        "kiloflops..yottaflops; 'kBps' spelling); sizes use the same prefixes on B/b (1 B = 8 b)",
        "a value is right when within 2 ulp of (exact decimal number) x (exact documented multiplier)",
        "no claim (OPEN class, outcomes only recorded): leading blanks, '1.', inf/nan/hex floats, numbers outside "
        "1e-290..1e280, Z/Y/Zi/Yi on sizes and bandwidths, upper-case 'K' decimal prefix, ';' in bandwidth lists",
    ], violations, ENGINE)


def replay(ctx, rf):
    c = rf["case"]
    binp = common.build_harness("c27", ["xbtx/c27.cpp"])
    res = evaluate(binp, [(c["kind"], c["string"])])[0]
    base = c["kind"].rstrip("!")
    print("xbt_parse_get_%s('%s') -> %s" % (base, c["string"], res))
    if base in KINDS:
        cls, exact = classify(base, c["string"])
        print("oracle: class=%s%s" % (cls, "" if exact is None else " value=%r" % float(exact)))
        bad = judge(base, c["string"], res)[1]
        print("verdict:", bad if bad else "ok")
        return 1 if bad else 0
    for kind, s, exp in list_cases():
        if (kind, s) == (c["kind"], c["string"]):
            print("oracle:", "open" if exp is None else exp if exp == "reject" else [float(e) for e in exp])
            if exp == "reject":
                return 1 if res[0] == "ok" else 0
            if exp is not None:
                ok = res[0] == "ok" and len(res[1]) == len(exp) and all(close(g, e) for g, e in zip(res[1], exp))
                return 0 if ok else 1
    return 0
