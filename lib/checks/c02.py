"""C02 — the outcome does not depend on the context factory, the number of worker threads or their synchronisation
(engine E4 `sim`, differential by statement).

Programs: the families of lib/simalpha.py (all activity kinds of C01), enumerated completely per bound.  Every program
is run under all 27 configurations contexts/factory in {raw, boost, thread} x contexts/nthreads in {1, 2, 4} x
contexts/synchro in {futex, posix, busy_wait}; the per-actor logs and the signal log of each run must be identical to
those of raw/1/futex.  Programs run packed by 32 in one simulation, so that scheduling rounds really contain several
runnable actors (parallel execution starts at 2 actors per round).
"""
import json, os, sys, time, itertools
import common, simlib, simalpha
from checks import c01

CONFIGS = [(f, n, s) for f in ("raw", "boost", "thread") for n in (1, 2, 4) for s in ("futex", "posix", "busy_wait")]
K = 32


def argv_of(cfg):
    f, n, s = cfg
    return ("--cfg=contexts/factory:%s" % f, "--cfg=contexts/nthreads:%d" % n, "--cfg=contexts/synchro:%s" % s)


def name_of(cfg):
    return "%s/%d/%s" % cfg


def bounds(tier):
    fams = [f for f in simalpha.FAMILIES if f != "core"]
    b = [("all families A=2 K=1", [c for f in fams for c in simalpha.enum(f, 2, 1)]),
         ("async + lifecycle A=3 K=1", [c for f in ("async", "lifecycle") for c in simalpha.enum(f, 3, 1)])]
    if tier == "quick":
        return b
    b.append(("condvar + mixed + activities + locks A=3 K=1", [c for f in fams if f not in ("async", "lifecycle") for c in simalpha.enum(f, 3, 1)]))
    b.append(("core (P, G, CS, SA, kill) A=2 K=2", simalpha.enum("core", 2, 2)))
    for f in ("condvar", "async", "mixed", "activities"):
        b.append(("%s A=2 K=2" % f, simalpha.enum(f, 2, 2)))
    return b


def build_prog(case):
    return simalpha.build_prog(case)


def classify(base, out):
    """'order' when both runs ended normally with exactly the same actor records and the same multiset of signal
    records — only the order of (simultaneous) signal records differs"""
    if base[1] != 0 or out[1] != 0:
        return "status"
    a, b = base[0].splitlines(), out[0].splitlines()
    if [l for l in a if l[:2] == "A "] != [l for l in b if l[:2] == "A "]:
        return "actors"
    strip = lambda l: l.split(" ", 2)[2]          # drop the sequence number of an S record
    sa, sb = [strip(l) for l in a if l[:2] == "S "], [strip(l) for l in b if l[:2] == "S "]
    if sorted(sa) == sorted(sb) and [l.rsplit(" ", 1)[1] for l in sa] == [l.rsplit(" ", 1)[1] for l in sb]:
        return "order"
    return "signals"


def signal_kinds(base, out):
    strip = lambda l: l.split(" ", 2)[2]
    a, b = [strip(l) for l in base.splitlines() if l[:2] == "S "], [strip(l) for l in out.splitlines() if l[:2] == "S "]
    return ",".join(sorted({x.split(" ")[0] for x, y in zip(a, b) if x != y}))


def diff_of(base, out):
    import difflib
    return list(difflib.unified_diff(base.splitlines(), out.splitlines(), "raw/1/futex", "other", lineterm="", n=0))[:40]


def run_cfg(binary, packs, cfg, tag):
    outs = simlib.run_many(binary, [dict(p, signals=True) for p in packs], argv=argv_of(cfg), tag=tag, raw=True)
    return [(c01.observable(t), st) for (t, st) in outs]


def run(ctx):
    # packs of 32 programs under busy-waiting worker threads burn CPU on a loaded machine: give the watchdog room
    os.environ.setdefault("SIM_CPU_LIMIT", "90")
    binary = simlib.build()
    evaluations, programs, done, per = 0, 0, [], {}
    nontrivial, suspects, samples = set(), [], []
    exhaustive, rate = True, None
    for (name, cases) in bounds(ctx.tier):
        if ctx.deadline.left() < 30 and done:
            exhaustive = False
            break
        if not ctx.quick and rate and len(cases) / rate * 2.0 > ctx.deadline.left() - 30:
            exhaustive = False
            break
        t_b = time.time()
        progs_ = [build_prog(c) for c in cases]
        groups = [list(range(i, min(i + K, len(cases)))) for i in range(0, len(cases), K)]
        packs = [simlib.pack([progs_[i] for i in g]) for g in groups]
        sig = [dict(p, signals=True) for p in packs]
        outs = simlib.run_jobs(binary, [(p, argv_of(cfg), ()) for cfg in CONFIGS for p in sig])      # all 27 x packs at once
        res = {cfg: [(c01.observable(t), st) for (t, st) in outs[k * len(packs):(k + 1) * len(packs)]]
               for k, cfg in enumerate(CONFIGS)}
        ref = res[CONFIGS[0]]
        for gi, g in enumerate(groups):
            if ref[gi][1] == 0:
                for i, u in zip(g, simlib.unpack(simlib.parse_output(ref[gi][0], 0), len(g))):
                    if c01.coinciding(u):
                        nontrivial.add(json.dumps(cases[i]))
        nd = 0
        for cfg in CONFIGS[1:]:
            for gi, g in enumerate(groups):
                if res[cfg][gi] != ref[gi]:
                    nd += 1
                    suspects.append((cfg, [cases[j] for j in g], ref[gi], res[cfg][gi]))
        evaluations += len(cases) * len(CONFIGS)
        programs += len(cases)
        per[name] = {"programs": len(cases), "packs": len(groups), "pack_runs_differing": nd, "t_s": round(time.time() - ctx.t0, 1)}
        common.log("C02 %s: %d programs x 27 configurations, %d pack runs differ, t=%.0fs" % (name, len(cases), nd, time.time() - ctx.t0))
        done.append(name)
        rate = len(cases) / max(0.5, time.time() - t_b)
        if cases and len(samples) < 4:
            c = cases[len(cases) // 2]
            samples.append({"case": simalpha.text(c), "actors": build_prog(c)["actors"]})
    simlib.cleanup("c02")
    vio, seen = [], set()
    order_only = [x for x in suspects if classify(x[2], x[3]) == "order"]
    others = [x for x in suspects if classify(x[2], x[3]) != "order"]
    if order_only:
        # same records everywhere, only the order of simultaneous signal records differs: one stable key for the whole class
        cfgs = sorted({name_of(x[0]) for x in order_only})
        par = all(x[0][1] > 1 for x in order_only)
        # confirm on the pack that differed most often, under up to 3 of the configurations in which it differed
        count = {}
        for x in order_only:
            count.setdefault(simalpha.text(x[1][0]), []).append(x)
        best = max(count.values(), key=len)
        cfg, packcases, base_o, out_o = best[0]
        packp = dict(simlib.pack([build_prog(c) for c in packcases]), signals=True)
        base = [(c01.observable(t), st) for (t, st) in simlib.run_jobs(binary, [(packp, argv_of(CONFIGS[0]), ())] * 8)]
        if len(set(base)) != 1:
            common.log("C02: the reference configuration itself is not reproducible on this pack (C01's subject)")
            raise SystemExit(2)
        tried, n, total = [], 0, 0
        for x in best[:3]:
            outs = [(c01.observable(t), st) for (t, st) in simlib.run_jobs(binary, [(packp, argv_of(x[0]), ())] * 40)]
            k = sum(1 for o in outs if o != base[0])
            tried.append("%s: %d/40" % (name_of(x[0]), k))
            n, total = n + k, total + 40
        if n == 0:
            common.log("C02: %d differing pack runs, but none of %d re-runs differs (%s): not reproducible, harness bug?" % (
                len(order_only), total, "; ".join(tried)))
            raise SystemExit(2)
        what = ("%d pack runs over %d configurations (%s) have the same records as raw/1/futex but a different order of "
                "simultaneous signal records (%s); re-running the pack that differed most often: %s differ (intermittent: "
                "depends on the OS schedule of the worker threads)" % (
                    len(order_only), len(cfgs), ", ".join(cfgs[:6]) + ("..." if len(cfgs) > 6 else ""),
                    signal_kinds(base_o[0], out_o[0]), "; ".join(tried)))
        key = "order of simultaneous signal records (%s) differs from raw/1/futex, %s" % (
            signal_kinds(base_o[0], out_o[0]), "only with nthreads>1" if par else "also with nthreads=1")
        vio.append(common.Violation(key, what, {"case": packcases[0], "cfg": list(cfg), "pack": packcases,
                                                "diff": diff_of(base_o[0], out_o[0])}))
    for cfg, packcases, base_o, out_o in others:
        if len(seen) >= 8:
            break
        # narrow down: members alone under this configuration vs the reference configuration
        culprit = None
        for c in packcases:
            p = dict(build_prog(c), signals=True)
            a = simlib.run_one(binary, p, argv=argv_of(CONFIGS[0]), raw=True)
            b = simlib.run_one(binary, p, argv=argv_of(cfg), raw=True)
            if (c01.observable(a[0]), a[1]) != (c01.observable(b[0]), b[1]):
                culprit = c
                break
        if culprit is not None:
            key = "prog=%s cfg=%s => log differs from raw/1/futex" % (simalpha.text(culprit), name_of(cfg))
            if key in seen:
                continue
            seen.add(key)
            p = dict(build_prog(culprit), signals=True)
            base = simlib.run_one(binary, p, argv=argv_of(CONFIGS[0]), raw=True)
            outs = simlib.run_jobs(binary, [(p, argv_of(cfg), ())] * 10)
            n = sum(1 for r in outs if (c01.observable(r[0]), r[1]) != (c01.observable(base[0]), base[1]))
            if n == 0 and int(cfg[1]) > 1:   # seen once in the sweep, not again in 10 runs: the intermittent parallel-execution class
                vio.append(common.Violation("outcome differs intermittently from raw/1/futex, only with nthreads>1 (OS-schedule dependent)", "seen once under %s, not again in 10 runs of %s" % (name_of(cfg), simalpha.text(culprit)), {"case": culprit, "cfg": list(cfg)}))
                continue
            if n == 0:
                common.log("C02: difference did not reproduce (harness bug?): %s" % key)
                raise SystemExit(2)
            if 0 < n < 10 and int(cfg[1]) > 1:   # intermittent and only with parallel execution: the one OS-schedule-dependence class
                key = "outcome differs intermittently from raw/1/futex, only with nthreads>1 (OS-schedule dependent)"
            vio.append(common.Violation(key, "alone, 10 runs under %s: %d differ from raw/1/futex (%s)" % (
                name_of(cfg), n, "always" if n == 10 else "intermittently"), {"case": culprit, "cfg": list(cfg), "program": build_prog(culprit)}))
        else:
            key = "pack-of=%s cfg=%s => actor logs differ from raw/1/futex" % (simalpha.text(packcases[0]), name_of(cfg))
            if key in seen:
                continue
            seen.add(key)
            packp = dict(simlib.pack([build_prog(c) for c in packcases]), signals=True)
            base = simlib.run_one(binary, packp, argv=argv_of(CONFIGS[0]), raw=True)
            outs = simlib.run_jobs(binary, [(packp, argv_of(cfg), ())] * 40)
            n = sum(1 for r in outs if (c01.observable(r[0]), r[1]) != (c01.observable(base[0]), base[1]))
            if n == 0 and int(cfg[1]) > 1:
                vio.append(common.Violation("outcome differs intermittently from raw/1/futex, only with nthreads>1 (OS-schedule dependent)", "seen once under %s, not again in 40 runs of the pack" % name_of(cfg), {"case": packcases[0], "cfg": list(cfg)}))
                continue
            if n == 0:
                common.log("C02: difference did not reproduce in 40 runs (harness bug?): %s" % key)
                raise SystemExit(2)
            if 0 < n < 40 and int(cfg[1]) > 1:
                key = "outcome differs intermittently from raw/1/futex, only with nthreads>1 (OS-schedule dependent)"
            vio.append(common.Violation(key, "the pack of %d programs, 40 runs under %s: %d differ from raw/1/futex (%s)" % (
                len(packcases), name_of(cfg), n, "always" if n == 40 else "intermittently"),
                {"case": packcases[0], "cfg": list(cfg), "pack": packcases, "diff": diff_of(base_o[0], out_o[0])}))
    coverage = {
        "evaluations": evaluations, "distinct_nontrivial": len(nontrivial),
        "rule": "every enumerated program run under all 27 factory/nthreads/synchro configurations (evaluations = programs x 27); "
                "non-trivial = distinct programs in whose run at least two different actors log an event at the same date > 0",
        "samples": samples, "exhaustive": exhaustive, "bounds_completed": done, "per_bound": per, "programs": programs,
        "configurations": [name_of(c) for c in CONFIGS],
    }
    if len(nontrivial) < 2:
        common.log("C02: vacuous run")
        raise SystemExit(2)
    common.finish(ctx, "exploration", coverage,
                  ["differential by statement: raw/1/futex is the reference configuration",
                   "the OS interleaving of worker threads inside a parallel sub-round is not owned by the harness (C49 explores Parmap itself)",
                   "the interpreter shares no unsynchronised memory between actors (per-actor buffers, pre-created slots)"],
                  vio, engine="sim")


def replay(ctx, rf):
    os.environ.setdefault("SIM_CPU_LIMIT", "90")
    binary = simlib.build()
    if "program" in rf["case"] and "case" not in rf["case"]:      # a hand-written program: 60 runs under thread/2/posix
        p = rf["case"]["program"]
        cfg = tuple(rf["case"].get("cfg", ("thread", 2, "posix")))
        b0 = simlib.run_one(binary, p, argv=argv_of(CONFIGS[0]), raw=True)
        outs = [(c01.observable(t), st) for (t, st) in simlib.run_jobs(binary, [(p, argv_of(cfg), ())] * 60)]
        n = sum(1 for o in outs if o != (c01.observable(b0[0]), b0[1]))
        print("60 runs under %s: %d differ from raw/1/futex" % (name_of(cfg), n))
        other = next((o for o in outs if o != (c01.observable(b0[0]), b0[1])), None)
        if other:
            print("\n".join(diff_of(c01.observable(b0[0]), other[0])))
        return 0 if n == 0 else 1
    case, cfg = rf["case"]["case"], tuple(rf["case"]["cfg"])
    if rf["case"].get("pack"):
        packp = dict(simlib.pack([build_prog(c) for c in rf["case"]["pack"]]), signals=True)
        b0 = simlib.run_one(binary, packp, argv=argv_of(CONFIGS[0]), raw=True)
        base = (c01.observable(b0[0]), b0[1])
        outs = [(c01.observable(t), st) for (t, st) in simlib.run_jobs(binary, [(packp, argv_of(cfg), ())] * 40)]
        n = sum(1 for o in outs if o != base)
        print("pack of %d programs, 40 runs under %s: %d differ from raw/1/futex" % (len(rf["case"]["pack"]), name_of(cfg), n))
        other = next((o for o in outs if o != base), base)
        print("\n".join(diff_of(base[0], other[0])))
        return 0 if n == 0 else 1
    else:
        p = dict(build_prog(case), signals=True)
        a, b = simlib.run_one(binary, p, argv=argv_of(CONFIGS[0]), raw=True), simlib.run_one(binary, p, argv=argv_of(cfg), raw=True)
        base, other = (c01.observable(a[0]), a[1]), (c01.observable(b[0]), b[1])
    print("raw/1/futex:\n%s\n%s:\n%s" % (base[0][:3000], name_of(cfg), other[0][:3000]))
    return 0 if base == other else 1
