"""C05 Semaphore semantics (token conservation, FIFO grants, reported capacity) under every interleaving (MC-mode paths).
Real-time timeouts of acquire_timeout are decided in normal mode by the timed engine (see DESIGN.md, C05)."""
import itertools
import common, vxlib, synccheck

def gen(caps, nact, maxops, minops=1, ops=("acq", "rel", "cap", "acqt")):
    alpha = [(o, s) for s in range(len(caps)) for o in ops]
    seqs = [s for n in range(minops, maxops + 1) for s in itertools.product(alpha, repeat=n)]
    def g():
        for combo in itertools.combinations_with_replacement(seqs, nact):
            actors = [list(c) for c in combo]
            if not vxlib.touches(actors, lambda op: op[1]):
                continue
            if not any(op[0] in ("acq", "acqt") for a in actors for op in a):
                continue
            yield dict(sem=list(caps), actors=actors)
    return g

def bounds(ctx):
    b = [("c%d-A2K3" % c, gen([c], 2, 3, ops=("acq", "rel", "cap"))) for c in (0, 1)]
    b += [("c%d-A3K2" % c, gen([c], 3, 2, ops=("acq", "rel", "cap"))) for c in (0, 1, 2)]
    b += [("c0-A2K2-acqt", gen([0], 2, 2))]
    if not ctx.quick:
        b += [("c2-A2K3", gen([2], 2, 3)), ("c0-A2K3-acqt", gen([0], 2, 3, 3)), ("c1-A3K2-acqt", gen([1], 3, 2, 2)),
              ("c01-A2K2", gen([0, 1], 2, 2, 2)), ("c1-A3K3", gen([1], 3, 3, 3, ops=("acq", "rel"))), ("c0-A4K2", gen([0], 4, 2, 1, ops=("acq", "rel")))]
    return b

def run(ctx):
    synccheck.run_bounds(ctx, bounds(ctx), "semaphores",
        ["MC-mode code paths of s4u::Semaphore (acquire = ASYNC_LOCK + WAIT); in that computational model an acquire_timeout never times out",
         "real-time timeouts (grant vs. timeout on the same date) belong to the timed engine, not to this check",
         "reference semantics lib/rs.py (counter + FIFO)"])

replay = synccheck.replay
