"""C09 Message queues are exactly-once and FIFO — every interleaving of every small program on the real kernel vs rs."""
import itertools
import common, vxlib, synccheck

MACROS = {
    "mput": lambda q: [("mput", q, "v")],
    "mget": lambda q: [("mget", q)],
    "MPA":  lambda q: [("mputa", q, "v", "k"), ("mwait", "k")],
    "MGA":  lambda q: [("mgeta", q, "k"), ("mwait", "k")],
    "MG2":  lambda q: [("mgeta", q, "k"), ("mgeta", q, "k2"), ("mwait", "k2"), ("mwait", "k")],
    "MP2":  lambda q: [("mputa", q, "v", "k"), ("mputa", q, "v", "k2"), ("mwait", "k2"), ("mwait", "k")],
}
def expand(actors):
    out = []
    for ai, seq in enumerate(actors):
        ops, slot, n = [], 0, 0
        for name, b in seq:
            k, k2 = slot % 4, (slot + 1) % 4
            used = set()
            for op in MACROS[name](b):
                o = []
                for x in op:
                    if x == "v":
                        n += 1; x = (ai + 1) * 10 + n
                    elif x == "k":
                        x = k; used.add("k")
                    elif x == "k2":
                        x = k2; used.add("k2")
                    o.append(x)
                ops.append(tuple(o))
            slot += len(used)
        out.append(ops)
    return out

def gen(names, nq, nact, maxops, minops=1):
    alpha = [(n, b) for b in range(nq) for n in names]
    seqs = [s for k in range(minops, maxops + 1) for s in itertools.product(alpha, repeat=k)]
    def g():
        for combo in itertools.combinations_with_replacement(seqs, nact):
            actors = [list(c) for c in combo]
            if not any(n in ("mput", "MPA", "MP2") for a in actors for n, b in a) or not any(n in ("mget", "MGA", "MG2") for a in actors for n, b in a):
                continue
            if not vxlib.touches(actors, lambda op: op[1]):
                continue
            yield dict(mq=nq, actors=expand(actors))
    return g

def bounds(ctx):
    b = [("A2K3", gen(("mput", "mget", "MPA", "MGA"), 1, 2, 3)), ("A3K2", gen(("mput", "mget", "MPA", "MGA"), 1, 3, 2)),
         ("multi-A2K2", gen(("MG2", "MP2", "mput", "mget"), 1, 2, 2)), ("twoq-A2K2", gen(("mput", "mget"), 2, 2, 2))]
    if not ctx.quick:
        b += [("A3K3", gen(("mput", "mget"), 1, 3, 3, 3)), ("A4K2", gen(("mput", "mget"), 1, 4, 2, 1)), ("multi-A3K2", gen(("MG2", "MP2", "mput", "mget"), 1, 3, 2, 2)),
              ("twoq-A3K2", gen(("mput", "mget", "MPA"), 2, 3, 2, 2))]
    return b

def run(ctx):
    synccheck.run_bounds(ctx, bounds(ctx), "message queues",
        ["replay-mode kernel (same code paths as a normal run for Mess: MessImpl has no model action)",
         "payloads are unique per put", "reference semantics lib/rs.py: FIFO queue of pending puts or gets"])

replay = synccheck.replay
