"""C39 Declared-independent transitions commute: in every distinct state of every small program, for every pair of
transitions of different actors that are both enabled, the real kernel is driven through a.b and b.a (re-execution from the
initial state); when the checker's own dispatch_depends declares the pair independent, neither may disable the other and both
orders must reach the same state (kernel fields, per-actor observations, enabled set). Dependency must be symmetric."""
import time
import common, vxlib, synccheck, mcprogs

def bounds(ctx):
    f = mcprogs.family
    b = [("misc", mcprogs.misc()), ("mutex", f("c04", ["plain-A2K3", "rec-A2K3"])), ("mutex3", f("c04", ["plain-A3K2"])), ("sem", f("c05", ["c0-A2K2-acqt", "c1-A3K2"])),
         ("condvar", f("c06", ["A2K2", "A3K1"])), ("barrier", mcprogs.chain(*[__import__("c07").gen(2, a, 2) for a in (2, 3)])), ("mbox", f("c08", ["basic-A2K2", "basic-A3K1"])), ("mbox-any", f("c08", ["any-A2K2"]))]
    if not ctx.quick:
        b += [("mutex-rec3", f("c04", ["rec-A3K2", "both-A2K3"])), ("sem3", f("c05", ["c0-A3K2", "c2-A3K2", "c01-A2K2"])), ("condvar3", f("c06", ["A3K2-nofor", "A3K2", "2cv-A2K2"])),
              ("barrier34", f("c07", ["n2-A1to4", "n3-A1to4", "n4-A1to4", "two-2-2-A3"])), ("mbox-more", f("c08", ["filter-A2K2", "perm-A2K2", "twobox-A2K2"])), ("mbox-A3K2", f("c08", ["basic-A3K2"]))]
    return b

def run(ctx):
    tot = dict(programs=0, pairs=0, indep=0, dep=0, crashed=0)
    cells = {}
    completed, violations, samples = [], {}, []
    exhaustive = True
    for name, gen in bounds(ctx):
        if ctx.deadline.left() < 15:
            exhaustive = False; break
        t0 = time.time()
        progs = [("%s-%d" % (name, i), p) for i, p in enumerate(gen()) if not p.get("mq")]
        res = vxlib.run_pairs(progs, "c39" + name, deadline=ctx.deadline.end)
        done = 0
        for pid, p in progs:
            r = res.get(pid)
            if r is None or r["status"] == "SKIP":
                exhaustive = False; continue
            if r["status"] != "OK":
                tot["crashed"] += 1; continue
            done += 1; tot["programs"] += 1; tot["pairs"] += r["pairs"]; tot["indep"] += r["indep"]; tot["dep"] += r["dep"]
            for c, k in r["cells"].items():
                cells[c] = cells.get(c, 0) + k
            for v in r["violations"]:
                kind, prefix, a, b, ta, tb, what = (list(v) + [""] * 7)[:7]
                import re
                types = "/".join(sorted([re.split(r"[^A-Za-z_]", ta)[0], re.split(r"[^A-Za-z_]", tb)[0]]))
                key = "C39 %s %s" % (kind, types)
                violations.setdefault(key, common.Violation(key, "%s: after [%s], a=%s %s and b=%s %s -- program: %s" % (what, prefix, a, ta, b, tb, synccheck.compact(p)),
                                                            dict(program=p, prefix=prefix, a=a, b=b, kind=kind)))
        if len(samples) < 4 and progs:
            r = res.get(progs[0][0], {})
            samples.append(dict(bound=name, program=synccheck.compact(progs[0][1]), pairs=r.get("pairs"), independent=r.get("indep")))
        completed.append(dict(bound=name, programs=done, of=len(progs), wall_s=round(time.time() - t0, 1)))
        common.log("C39 bound %s: %d/%d programs %.0fs violations %d" % (name, done, len(progs), time.time() - t0, len(violations)))
    if tot["programs"] < 2 or tot["indep"] < 2:
        common.log("vacuous run"); raise SystemExit(2)
    vs = []
    for v in violations.values():   # the failing pair again, twice, alone
        rr = [vxlib.run_pairs([("x", v.case["program"])], "c39c")["x"] for _ in range(2)]
        ks = [sorted(set((x[0], x[1], x[2], x[3]) for x in r["violations"])) for r in rr]
        if ks[0] != ks[1] or (v.case["kind"], v.case["prefix"], v.case["a"], v.case["b"]) not in ks[0]:
            common.log("C39: not reproduced identically: %s" % v.key); raise SystemExit(2)
        vs.append(v)
    cov = dict(evaluations=tot["pairs"], distinct_nontrivial=tot["indep"], programs=tot["programs"], dependent_pairs=tot["dep"], independent_pairs_executed_in_both_orders=tot["indep"],
               dependency_table_cells_exercised={k: cells[k] for k in sorted(cells)}, programs_where_the_kernel_crashed=tot["crashed"],
               rule="every distinct state (stateful walk) x every pair of enabled transitions of different actors; non-trivial = pairs the checker declares independent (executed in both orders and compared)",
               bounds_completed=completed, samples=samples, exhaustive=exhaustive)
    common.finish(ctx, "exploration", cov, ["transitions and dispatch_depends are the checker's own (observer serialised, deserialize_transition)",
                  "state equality = canonical kernel state + hidden fields + enabled set (the de-duplication key of vx)",
                  "message-queue programs excluded (transitions cannot be decoded, see C43); only cells of the dependency table that can be co-enabled by these alphabets are exercised (listed in the evidence)"],
                  vs, engine="E1 vx")

def replay(ctx, case):
    c = case["case"]
    r = vxlib.run_pairs([("x", c["program"])], "c39r")["x"]
    print("program:", synccheck.compact(c["program"])); print("pairs", r["pairs"], "independent", r["indep"], "dependent", r["dep"])
    for v in r["violations"]:
        print("VIOLATION", v)
    return 1 if r["violations"] else 0
