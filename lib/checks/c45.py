"""C45 — xbt random: draws in range, unbiased, and fixed by SimGrid's own algorithm (engine E10 "xbtx").

1. The harness owns the MT19937 seam (writes the engine state so that the next raw output is v) and sweeps the WHOLE
   2^32 raw-output space through XbtRandom::uniform_int(min,max) for a list of range sizes x offsets: every result in
   [min,max]; exact preimage count of every value identical (counted for sizes <= 2^20; for larger sizes derived in O(1)
   memory from "accepted set is a prefix [0,L), R | L, result = min + v mod R", with exact counting in 16 passes as the
   fallback if that structure does not hold).  Same sweep through uniform_real for several intervals: in [min,max].
2. Every call sequence up to a length bound over 8 calls (4 integer ranges of which two reject ~50% / 25% of the raw
   values, 2 real intervals, exponential, normal) x 6 seeds x {constructor seed, set_seed, namespace API} is compared with
   an independent MT19937 (Python, from the reference algorithm) + the documented rejection / scaling algorithm.
"""
import os, sys, json, math, itertools, subprocess, struct, time
import common

ENGINE = "E10 xbtx"
INT_MIN, INT_MAX = -2**31, 2**31 - 1
M32 = 2**32


# ------------------------------------------------------------------ independent MT19937 (Matsumoto & Nishimura reference)
def mt_outputs(seed, n):
    mt = [0] * 624
    mt[0] = seed & 0xffffffff
    for i in range(1, 624):
        mt[i] = (1812433253 * (mt[i - 1] ^ (mt[i - 1] >> 30)) + i) & 0xffffffff
    out, idx = [], 624
    while len(out) < n:
        if idx >= 624:
            for k in range(624):
                y = (mt[k] & 0x80000000) | (mt[(k + 1) % 624] & 0x7fffffff)
                mt[k] = mt[(k + 397) % 624] ^ (y >> 1) ^ (0x9908b0df if y & 1 else 0)
            idx = 0
        y = mt[idx]; idx += 1
        y ^= y >> 11
        y ^= (y << 7) & 0x9d2c5680
        y ^= (y << 15) & 0xefc60000
        y ^= y >> 18
        out.append(y & 0xffffffff)
    return out


class Ref:
    """The documented algorithm on top of a raw 32-bit stream."""
    def __init__(self, raw):
        self.raw, self.pos, self.rejections = raw, 0, 0
    def next(self):
        v = self.raw[self.pos]; self.pos += 1
        return v
    def uniform_int(self, mn, mx):
        rng = (mx - mn) & 0xffffffff
        if rng == M32 - 1:
            return wrap32(self.next() + mn)
        R = rng + 1
        limit = (M32 - 1) - (M32 - 1) % R
        while True:
            v = self.next()
            if v < limit:
                return wrap32(v % R + mn)
            self.rejections += 1
    def uniform_real(self, mn, mx):
        while True:
            num = self.next()
            if num != M32 - 1:
                return mn + (mx - mn) * float(num) / 4294967295.0
            self.rejections += 1
    def exponential(self, lam):
        return -1.0 / lam * math.log(self.uniform_real(0.0, 1.0))
    def normal(self, mean, sd):
        while True:
            u1 = self.uniform_real(0.0, 1.0)
            if u1 >= sys.float_info.min:
                break
        u2 = self.uniform_real(0.0, 1.0)
        return math.sqrt(-2.0 * math.log(u1)) * math.cos(2.0 * math.pi * u2) * sd + mean
    def call(self, c):
        a = c.split(":")
        if a[0] == "i":
            return ("i", self.uniform_int(int(a[1]), int(a[2])))
        if a[0] == "r":
            return ("r", self.uniform_real(float(a[1]), float(a[2])))
        if a[0] == "e":
            return ("t", self.exponential(float(a[1])))
        return ("t", self.normal(float(a[1]), float(a[2])))


def wrap32(x):
    x &= 0xffffffff
    return x - M32 if x >= 2**31 else x


CALLS = ["i:0:9", "i:-2147483648:2147483647", "i:-1073741824:1073741824", "i:-2147483648:1073741823", "r:0:1",
         "r:-3.5:7.25", "e:2", "n:0:1"]
SEEDS = [0, 1, 42, 2147483647, -1, 5489]


def int_plan(quick):
    """list of bounds, each a list of (min, max)"""
    if quick:
        return [[(3, 9), (-2**30, 2**30), (INT_MIN, INT_MAX)]]
    sizes = [1, 2, 3, 6, 7, 10, 2**31, 2**31 + 1, 3 * 2**30, M32 - 1, M32]
    bounds, seen = [], set()
    for k in range(4):
        b = []
        for R in sizes:
            offs = [o for o in (INT_MIN, -1, 0, INT_MAX - R + 1) if INT_MIN <= o and o + R - 1 <= INT_MAX]
            offs = sorted(set(offs), key=lambda o: (INT_MIN, -1, 0, INT_MAX - R + 1).index(o))
            if k < len(offs) and (offs[k], R) not in seen:
                seen.add((offs[k], R))
                b.append((offs[k], offs[k] + R - 1))
        bounds.append(b)
    return bounds


def real_plan(quick):
    if quick:
        return [(-3.5, 7.25)]
    one = 1.0
    return [(-3.5, 7.25), (0.0, 1.0), (0.1, 0.3), (one, one + 4 * sys.float_info.epsilon), (-1e300, 1e300), (5.0, 5.0),
            (1e-310, 3e-310)]


def sweep(binp, what, a, b):
    r = subprocess.run([binp, what, a, b, str(common.NCPU)], stdout=subprocess.PIPE, stderr=subprocess.PIPE, text=True)
    if r.returncode != 0:
        common.log("verif: C45 harness failed: " + r.stderr[-500:])
        sys.exit(2)
    return json.loads(r.stdout)


def one(binp, what, a, b, v):
    r = subprocess.run([binp, what, a, b, str(v)], stdout=subprocess.PIPE, text=True)
    return json.loads(r.stdout)


def judge_int(j, binp=None, deadline=None, notes=None):
    """-> list of (key, what, case)"""
    mn, mx, R = j["min"], j["max"], j["R"]
    if j["weird_consumption"] or j["accepted"] < 2**31:
        common.log("verif: C45 the seam assumption (one raw output per accepted draw, at least half of the raw values "
                   "accepted) does not hold for uniform_int(%d,%d): %s" % (mn, mx, j))
        sys.exit(2)
    out = []
    if j["out_of_range"]:
        out.append(("C45 uniform_int(%d,%d) result outside [min,max]" % (mn, mx),
                    "%d raw values give a result outside the range, first raw value %d" % (j["out_of_range"], j["first_out_of_range"]),
                    {"type": "int", "min": mn, "max": mx, "v": j["first_out_of_range"]}))
    if j["counted"]:
        equal = j["count_min"] == j["count_max"]
        how = "exact preimage counts: value min+%d has %d raw values, value min+%d has %d" % (
            j["argmin"], j["count_min"], j["argmax"], j["count_max"])
    else:
        equal = j["prefix_ok"] and j["R_divides_L"] and j["mod_mismatch"] == 0
        how = "structure"
        if not equal and not j["out_of_range"]:
            # not "prefix and mod": that alone is no bias. Count exactly (ceil(R/2^28) more sweeps) if time permits.
            passes = (R + 2**28 - 1) // 2**28
            if binp is None or (deadline is not None and deadline.left() < passes * 30):
                if notes is not None:
                    notes.append("uniform_int(%d,%d): accepted set is not 'prefix and mod' and no time for exact counting: "
                                 "unbiasedness undetermined" % (mn, mx))
                return out
            c = sweep(binp, "count_int", str(mn), str(mx))
            equal = c["count_min"] == c["count_max"]
            how = "exact preimage counts (%d passes): value min+%d has %d raw values, value min+%d has %d" % (
                passes, c["argmin"], c["count_min"], c["argmax"], c["count_max"])
    if not equal and not j["out_of_range"]:
        out.append(("C45 uniform_int(%d,%d) values not equally likely" % (mn, mx), how,
                    {"type": "int-sweep", "min": mn, "max": mx}))
    return out


def judge_real(j, mn, mx):
    if j["weird_consumption"]:
        common.log("verif: C45 seam assumption broken for uniform_real: %s" % j)
        sys.exit(2)
    if j["out_of_range"]:
        return [("C45 uniform_real(%r,%r) result outside [min,max]" % (mn, mx),
                 "%d raw values give a result outside [min,max] (or NaN), first raw value %d" % (j["out_of_range"], j["first_out_of_range"]),
                 {"type": "real", "min": mn.hex(), "max": mx.hex(), "v": j["first_out_of_range"]})]
    return []


def seq_lines(maxlen):
    for seed in SEEDS:
        for n in range(1, maxlen + 1):
            for combo in itertools.product(CALLS, repeat=n):
                for api in ("obj", "set"):
                    yield api, seed, combo
    for n in range(1, maxlen + 1):
        for combo in itertools.product(CALLS, repeat=n):
            yield "glob", 42, combo


def same(kind, got, want):
    if kind == "i":
        return int(got) == want
    g = float.fromhex(got)
    if kind == "r":
        return g == want                   # pure double arithmetic: bit-exact
    return g == want or abs(g - want) <= 1e-12 * max(1.0, abs(want))     # through libm's log/cos/sqrt


def run_seq(binp, items):
    inp = "".join("%s %d %s\n" % (api, seed, " ".join(combo)) for api, seed, combo in items)
    r = subprocess.run([binp, "seq"], input=inp, stdout=subprocess.PIPE, text=True)
    lines = r.stdout.split("\n")
    if r.returncode != 0 or len(lines) < len(items):
        common.log("verif: C45 seq harness died")
        sys.exit(2)
    return [l.split() for l in lines[:len(items)]]


def check_seq(items, outs, raws):
    bad, nrej, ncalls = [], 0, 0
    for (api, seed, combo), got in zip(items, outs):
        ref = Ref(raws[seed])
        exp = [ref.call(c) for c in combo]
        ncalls += len(combo)
        if ref.rejections:
            nrej += 1
        if len(got) != len(exp):
            bad.append(((api, seed, combo), "printed %d values for %d calls" % (len(got), len(exp))))
            continue
        for k, ((kind, want), g) in enumerate(zip(exp, got)):
            if not same(kind, g, want):
                bad.append(((api, seed, combo), "call %d %s returned %s, the reference algorithm on MT19937(seed) gives %s"
                            % (k, combo[k], g if kind == "i" else float.fromhex(g), want)))
                break
    return bad, nrej, ncalls


def run(ctx):
    budget = os.environ.get("VERIF_BUDGET_S")       # see c50.py: the budget counts from the start of the exploration
    ctx.deadline = common.Deadline(float(budget) if budget else (150 if ctx.quick else 1200))
    binp = common.build_harness("c45", ["xbtx/c45.cpp"])
    # the reference MT19937 must be the real one: 10000th output for the default seed 5489 is 4123659995 (C++ standard)
    assert mt_outputs(5489, 10000)[-1] == 4123659995
    cands, cov = [], {"int_sweeps": [], "real_sweeps": [], "bounds_not_started": []}
    swept = rejected_total = 0
    exhaustive = True
    last = 25.0
    # 2. sequences first (cheap)
    maxlen = 3 if ctx.quick else 4
    items = list(seq_lines(maxlen))
    raws = {s: mt_outputs(s, 1248) for s in SEEDS}
    t0 = time.time()
    outs = run_seq(binp, items)
    bad, seq_rej, ncalls = check_seq(items, outs, raws)
    cov["sequences"] = {"max_length": maxlen, "sequences": len(items), "calls": ncalls, "seeds": SEEDS, "alphabet": CALLS,
                        "sequences_with_a_rejected_raw_value": seq_rej, "wall_s": round(time.time() - t0, 1)}
    bad.sort(key=lambda b: (len(b[0][2]), b[0][0] != "obj"))
    for (api, seed, combo), what in bad[:3]:
        cands.append(("C45 seq api=%s seed=%d calls=%s" % (api, seed, ",".join(combo)), what,
                      {"type": "seq", "api": api, "seed": seed, "calls": list(combo)}))
    # 1. whole-space sweeps, bound by bound: every range size at its first offset, then the real intervals, then the
    #    other offsets
    def int_bound(bi, bound):
        nonlocal swept, rejected_total, last, cands
        for mn, mx in bound:
            t0 = time.time()
            j = sweep(binp, "sweep_int", str(mn), str(mx))
            last = time.time() - t0
            swept += M32
            rejected_total += j["rejected"]
            cands += judge_int(j, binp, ctx.deadline, cov.setdefault("undetermined", []))
            cov["int_sweeps"].append({"min": mn, "max": mx, "R": j["R"], "accepted": j["accepted"], "rejected": j["rejected"],
                                      "preimages_per_value": (j["count_min"] if j["counted"] else j["L"] // j["R"]),
                                      "method": "counted" if j["counted"] else "prefix+mod structure", "wall_s": round(last, 1)})
            common.log("C45 uniform_int(%d,%d): %d accepted, %d rejected, %.1fs" % (mn, mx, j["accepted"], j["rejected"], last))

    def real_bound(intervals):
        nonlocal swept, rejected_total, last, cands
        for mn, mx in intervals:
            t0 = time.time()
            j = sweep(binp, "sweep_real", mn.hex(), mx.hex())
            last = time.time() - t0
            swept += M32
            rejected_total += j["rejected"]
            cands += judge_real(j, mn, mx)
            cov["real_sweeps"].append({"min": mn, "max": mx, "lowest": float.fromhex(j["lowest"]) if j["out_of_range"] < M32 else None,
                                       "highest": float.fromhex(j["highest"]) if j["out_of_range"] < M32 else None,
                                       "equal_to_max": j["equal_to_max"], "rejected": j["rejected"], "wall_s": round(last, 1)})
            common.log("C45 uniform_real(%r,%r): %.1fs" % (mn, mx, last))

    ib = int_plan(ctx.quick)
    bounds = [("integer ranges, offset #1 (%d ranges)" % len(ib[0]), lambda: int_bound(0, ib[0]), len(ib[0])),
              ("real intervals (%d)" % len(real_plan(ctx.quick)), lambda: real_bound(real_plan(ctx.quick)), len(real_plan(ctx.quick)))]
    for k in range(1, len(ib)):
        bounds.append(("integer ranges, offset #%d (%d ranges)" % (k + 1, len(ib[k])), (lambda k=k: int_bound(k, ib[k])), len(ib[k])))
    for bi, (name, fn, n) in enumerate(bounds):
        if cov["bounds_not_started"] or (bi > 0 and ctx.deadline.left() < last * n * 1.1):
            cov["bounds_not_started"].append(name)
            exhaustive = False
            continue
        fn()
        cov.setdefault("bounds_completed", []).append(name)
    # confirmation: each case alone, twice
    violations = []
    for key, what, case in cands[:8]:
        a, b = confirm(binp, case), confirm(binp, case)
        if a != b or not a:
            common.log("verif: C45 %s does not reproduce identically alone (%r / %r)" % (key, a, b))
            sys.exit(2)
        violations.append(common.Violation(key, what + " [alone: %s]" % a, case))
    cov.update({"evaluations": swept + ncalls, "raw_values_swept": swept,
                "distinct_nontrivial": rejected_total + seq_rej,
                "rule": "every one of the 2^32 raw generator outputs is pushed through each listed range / interval (one "
                        "evaluation each); every call sequence up to the length bound is run for every seed and API. "
                        "Non-trivial = (range, raw value) pairs that the rejection loop really rejected, plus sequences in "
                        "which a rejection shifted the alignment of later draws (both measured)",
                "samples": [{"uniform_int": [s["min"], s["max"]], "preimages_per_value": s["preimages_per_value"],
                             "rejected": s["rejected"]} for s in cov["int_sweeps"][:4]] +
                           [{"api": a, "seed": s, "calls": list(c), "observed": o} for (a, s, c), o in
                            list(zip(items, outs))[1000:1003]],
                "exhaustive": exhaustive and not cov.get("undetermined")})
    common.finish(ctx, "exploration", cov, [
        "seam: libstdc++'s std::mt19937 keeps its state in _M_x/_M_p and tempers _M_x[_M_p] on output (self-tested by the "
        "harness on 6 values at every start)",
        "the reference generator is a from-the-paper MT19937 in Python, validated against the C++ standard's check value "
        "(10000th output for seed 5489)",
        "uniform_real intervals have max-min finite (the precondition of std::uniform_real_distribution); wider ones are not asked",
        "exponential / normal go through libm: compared within 1e-12 relative; uniform_int / uniform_real bit-exact",
    ], violations, ENGINE)


def confirm(binp, case):
    t = case["type"]
    if t == "int":
        j = one(binp, "one_int", str(case["min"]), str(case["max"]), case["v"])
        return "raw %d -> %d" % (case["v"], j["result"]) if not (case["min"] <= j["result"] <= case["max"]) else ""
    if t == "real":
        j = one(binp, "one_real", case["min"], case["max"], case["v"])
        x, mn, mx = float.fromhex(j["result"]), float.fromhex(case["min"]), float.fromhex(case["max"])
        return "raw %d -> %r" % (case["v"], x) if not (mn <= x <= mx) else ""
    if t == "int-sweep":
        j = sweep(binp, "sweep_int", str(case["min"]), str(case["max"]))
        r = judge_int(j, binp)
        return r[0][1] if r else ""
    if t == "seq":
        item = (case["api"], case["seed"], tuple(case["calls"]))
        outs = run_seq(binp, [item])
        bad, _, _ = check_seq([item], outs, {case["seed"]: mt_outputs(case["seed"], 1248)})
        return bad[0][1] if bad else ""
    return ""


def replay(ctx, rf):
    binp = common.build_harness("c45", ["xbtx/c45.cpp"])
    r = confirm(binp, rf["case"])
    print("replaying %s" % rf["key"])
    print("observed: %s" % (r or "nothing wrong"))
    return 1 if r else 0
