"""C35 — private parts of partially shared buffers are transferred exactly (engine E7 mpix).

(i)  pure: harness/mpix/c35/blocks.cpp calls shift_and_frame_private_blocks / merge_private_blocks of libsimgrid directly for
     every private-block layout (every subset of an L-unit line), every offset, every size, every pair of layouts for
     merge, and the whole pipeline merge(shift(src), shift(dst)) for every (src layout, src offset, dst layout, dst offset,
     size), against set arithmetic. L = 6 (quick) / 6, 8, 10 (thorough).
(ii) end to end: harness/mpix/c35/e2e.c, 2 ranks, allocations of NP pages made with SMPI_PARTIAL_SHARED_MALLOC for every
     page-granular layout (+ plain malloc), every source/destination offset and size in half pages, MPI_Send / MPI_Ssend /
     MPI_Isend, under three protocol configurations (default = detached copy of the send buffer; send-is-detached-thresh:0 =
     the user's buffer is handed to the copy callback; async-small-thresh:65536 = eager mailbox). NP = 3 (quick) / 3, 4, 5.
Oracle: a byte must arrive iff it is private in the source AND in the destination allocation (interval arithmetic written in
the harnesses); private destination bytes outside the message must keep their canary."""
import os, sys, json, time, subprocess, concurrent.futures as cf
import common, mpix

LEVELS = {"quick": [("pure", 6), ("e2e", 3)],
          "thorough": [("pure", 6), ("e2e", 3), ("pure", 8), ("e2e", 4), ("pure", 10), ("e2e", 5)]}
CFGS = [("default", []), ("nodetach", ["smpi/send-is-detached-thresh:0"]), ("eager", ["smpi/async-small-thresh:65536"])]
PURE_SHARDS = {6: 1, 8: 16, 10: 32}
E2E_SHARDS = {3: 2, 4: 8, 5: 64}
PCOUNT = ["shift", "merge", "pipe", "offset_inside_block", "extra", "required_units"]
ECOUNT = ["cases", "start_inside_private_block", "required_bytes", "private_bytes_checked"]
DESCR = {
    "shift-head-block-dropped": "shift_and_frame_private_blocks drops the private block the message starts inside of (block begin < offset < block end)",
    "shift-missing": "shift_and_frame_private_blocks loses private positions of the message",
    "shift-malformed": "shift_and_frame_private_blocks returns a block with begin > end, end > size, or unsorted blocks",
    "merge-missing": "merge_private_blocks loses positions that are private on both sides",
    "merge-malformed": "merge_private_blocks returns malformed blocks",
    "pipeline-head-block-dropped": "merge(shift(src), shift(dst)) misses bytes private in both buffers, all in the block a message starts inside of",
    "pipeline-missing": "merge(shift(src), shift(dst)) misses bytes that are private in both buffers",
    "pipeline-malformed": "merge(shift(src), shift(dst)) returns malformed blocks",
    "e2e-head-block-dropped": "bytes private in both buffers did not arrive; all of them lie in the private block the message starts inside of",
    "e2e-missing": "bytes private in both buffers did not arrive",
    "e2e-outside": "private bytes of the destination allocation outside the message were overwritten",
}


def _mask(s):
    m = 0
    if s != "none":
        for part in s.split("+"):
            a, b = part.split("-")
            for i in range(int(a), int(b)):
                m |= 1 << i
    return m


def _pure_args(d):
    k = d["kind"].split("-")[0]
    if k == "shift":
        return ["one", "shift", _mask(d["blocks"]), int(d["offset"]), int(d["size"])]
    if k == "merge":
        return ["one", "merge", _mask(d["src"]), _mask(d["dst"]), int(d["size"])]
    return ["one", "pipe", _mask(d["src"]), int(d["srcoff"]), _mask(d["dst"]), int(d["dstoff"]), int(d["size"])]


def _sortkey(d):
    k = d["kind"]
    if k.startswith("e2e"):
        return (3, int(d["np"]), [c for c, _ in CFGS].index(d["cfg"]), int(d["ord"]))
    a = _pure_args(d)
    if a[1] == "shift":
        return (0, a[2], a[3], a[4])
    if a[1] == "merge":
        return (1, a[4], a[2], a[3])
    return (2, a[2], a[3], a[4], a[5], a[6])


def _key(d):
    k = d["kind"].split("/")[0]
    fields = ("cfg", "mode", "np", "blocks", "offset", "src", "srcoff", "dst", "dstoff", "size")
    return "C35 %s %s" % (k, " ".join("%s=%s" % (f, d[f]) for f in fields if f in d))


def _pure_job(job):
    binary, L, shard, n = job
    r = subprocess.run([binary, str(L), str(shard), str(n)], stdout=subprocess.PIPE, stderr=subprocess.PIPE, text=True)
    return r.returncode, r.stdout, r.stderr[-800:]


def _e2e_job(job):
    tmp, binary, cfg, opts, NP, shard, n, only, timeout = job
    rc, out, err = mpix.smpirun(tmp, binary, 2, [cfg, NP, shard, n, only], cfg=opts, timeout=timeout)
    return rc, out, err[-800:], job


def _fix_kinds(out):
    """e2e kinds are tracked per configuration: kind -> kind/cfg"""
    lines = []
    cfg = None
    for line in out.splitlines():
        if line.startswith("V ") and " cfg=" in line:
            cfg = line.split(" cfg=")[1].split()[0]
            parts = line.split()
            parts[1] = parts[1] + "/" + cfg
            line = " ".join(parts)
        lines.append(line)
    ncfg = [l.split(" cfg=")[1].split()[0] for l in lines if l.startswith("N ") and " cfg=" in l]
    if ncfg:
        lines = [(" ".join([p if not p.startswith("kind=") else p + "/" + ncfg[0] for p in l.split()]) if l.startswith("S ") else l)
                 for l in lines]
    return "\n".join(lines)


def _rerun(tmp, pure, e2e, case):
    if case["part"] == "pure":
        r = subprocess.run([pure] + [str(a) for a in case["args"]], stdout=subprocess.PIPE, stderr=subprocess.PIPE, text=True)
        return r.returncode, [d for t, d in mpix.records(r.stdout) if t == "V"], r.stderr
    opts = dict(CFGS)[case["cfg"]]
    rc, out, err = mpix.smpirun(tmp, e2e, 2, [case["cfg"], case["np"], 0, 1, case["ord"]], cfg=opts, timeout=300)
    return rc, [d for t, d in mpix.records(_fix_kinds(out)) if t == "V"], err


def run(ctx):
    pure = common.build_harness("c35_blocks", ["mpix/c35/blocks.cpp"])
    e2e = mpix.build_smpi("c35_e2e", ["c35/e2e.c"])
    tmp = common.tmpdir("c35")
    mpix.platform(tmp)
    agg = mpix.Agg(_sortkey, [])
    done, exhaustive, crashes = [], True, []
    pure_tot, e2e_tot = {}, dict.fromkeys(ECOUNT, 0)
    per_level = {}
    for part, size in LEVELS[ctx.tier]:
        if ctx.deadline.over():
            exhaustive = False
            break
        if part == "pure":
            n = PURE_SHARDS[size]
            jobs = [(pure, size, s, n) for s in range(n)]
            with cf.ThreadPoolExecutor(max_workers=common.NCPU) as ex:
                res = list(ex.map(_pure_job, jobs))
            tot = dict.fromkeys(PCOUNT, 0)
            for (rc, out, err), job in zip(res, jobs):
                if rc != 0:
                    crashes.append({"part": "pure", "L": size, "shard": job[2], "nshards": n, "rc": rc, "err": err})
                agg.absorb(out)
                for t, d in mpix.records(out):
                    if t == "N":
                        for c in PCOUNT:
                            tot[c] += int(d[c])
            pure_tot = tot          # levels are nested (every case of L is a case of L+2): keep the largest
            per_level["pure L=%d" % size] = tot
        else:
            n = E2E_SHARDS[size]
            jobs = [(tmp, e2e, c, o, size, s, n, -1, max(120, ctx.deadline.left() + 300)) for c, o in CFGS for s in range(n)]
            if ctx.seed:
                import random
                random.Random(ctx.seed).shuffle(jobs)
            with cf.ThreadPoolExecutor(max_workers=common.NCPU) as ex:
                res = list(ex.map(_e2e_job, jobs))
            tot = dict.fromkeys(ECOUNT, 0)
            complete = True
            for rc, out, err, job in res:
                if rc == 124:
                    complete = False
                elif rc != 0:
                    crashes.append({"part": "e2e", "cfg": job[2], "np": size, "shard": job[5], "nshards": n, "rc": rc, "err": err})
                agg.absorb(_fix_kinds(out))
                for t, d in mpix.records(out):
                    if t == "N":
                        for c in ECOUNT:
                            tot[c] += int(d[c])
            for c in ECOUNT:
                e2e_tot[c] += tot[c]
            per_level["e2e np=%d" % size] = tot
            if not complete:
                exhaustive = False
                common.log("C35: level e2e np=%d not completed before the deadline" % size)
                break
        done.append("%s %d" % (part, size))
        common.log("C35: level %s %d done at %.1fs" % (part, size, time.time() - ctx.t0))

    violations = []
    for kind, k in sorted(agg.kinds.items()):
        d = k["first"]
        if d is None:
            common.log("C35: kind %s counted but no record kept" % kind)
            sys.exit(2)
        if kind.startswith("e2e"):
            case = {"part": "e2e", "cfg": d["cfg"], "np": int(d["np"]), "ord": int(d["ord"]), "kind": kind, "record": d}
        else:
            case = {"part": "pure", "args": _pure_args(d), "kind": kind, "record": d}
        mpix.confirm_twice("C35", _key(d), d, lambda: _rerun(tmp, pure, e2e, case))
        det = " ".join("%s=%s" % (a, d[a]) for a in ("got", "exp", "missing_bytes", "first_at_message_byte", "touched_bytes") if a in d)
        violations.append(common.Violation(_key(d), "%s; first of %d failing cases in this run (%s)" % (
            DESCR.get(kind.split("/")[0], kind), k["count"], det), case))
    for c in crashes:
        key = "C35 crash %s" % " ".join("%s=%s" % (f, c[f]) for f in ("part", "cfg", "L", "np", "shard", "nshards") if f in c)
        exhaustive = False
        violations.append(common.Violation(key, "harness run died (exit %s): %s" % (c["rc"], c["err"].strip().splitlines()[-1:]), dict(c, kind="crash")))

    nontriv = pure_tot.get("offset_inside_block", 0) + e2e_tot["start_inside_private_block"]
    cov = {
        "evaluations": sum(v.get("shift", 0) + v.get("merge", 0) + v.get("pipe", 0) + v.get("cases", 0) for v in per_level.values()),
        "distinct_nontrivial": nontriv,
        "rule": "pure: every subset of an L-unit line as private layout x every offset x every size (shift), every pair of layouts "
                "(merge), every (src layout, src offset, dst layout, dst offset, size) (pipeline); e2e: every page-granular layout pair x "
                "offsets x sizes in half pages x 3 send calls x 3 protocol configurations; non-trivial = distinct cases where the "
                "message starts strictly inside a private block (block begin < offset < block end): shift cases of the largest "
                "completed L (levels are nested) + end-to-end cases where this holds in the source or destination allocation",
        "samples": [
            {"part": "pure/shift", "blocks": "1-3+5-6", "offset": 2, "size": 4, "expected_private_positions": "0-1+3-4"},
            {"part": "pure/pipeline", "src": "0-2", "srcoff": 1, "dst": "1-4", "dstoff": 2, "size": 2, "expected": "0-1"},
            {"part": "e2e", "cfg": "nodetach", "mode": "Ssend", "np": 3, "src": "PsP", "srcoff": 1, "dst": "sPP", "dstoff": 3, "size": 3,
             "unit": "half page (2048 bytes)"},
        ],
        "exhaustive": exhaustive and len(done) == len(LEVELS[ctx.tier]),
        "levels_completed": done, "per_level": per_level,
        "pure_cases_largest_L": {c: pure_tot.get(c, 0) for c in PCOUNT},
        "e2e_messages": e2e_tot["cases"], "e2e_required_bytes_checked": e2e_tot["required_bytes"],
        "e2e_private_bytes_checked": e2e_tot["private_bytes_checked"],
        "info_results_with_extra_positions": pure_tot.get("extra", 0),
        "violation_kinds": {k: v["count"] for k, v in agg.kinds.items()},
    }
    mpix.cleanup(tmp)
    if nontriv < 2:
        common.log("C35: vacuous run")
        sys.exit(2)
    common.finish(ctx, "exploration", cov, [
        "oracle = set arithmetic on private positions, written in harness/mpix/c35/blocks.cpp and e2e.c",
        "copying more than required (bytes whose source is shared) is allowed by the statement and only counted",
        "layouts of the end-to-end part are page granular (4096) with messages in half pages; smpi/shared-malloc-hugepage is not used",
        "violations whose missing bytes all lie in the block a message starts inside of are keyed apart (*-head-block-dropped) so that "
        "the known defect cannot mask another loss",
    ], violations, engine="mpix")


def replay(ctx, case):
    pure = common.build_harness("c35_blocks", ["mpix/c35/blocks.cpp"])
    e2e = mpix.build_smpi("c35_e2e", ["c35/e2e.c"])
    tmp = common.tmpdir("c35r")
    mpix.platform(tmp)
    c = case["case"]
    if c.get("kind") == "crash":
        print("crash case: re-run the tier to reproduce:", c)
        return 1
    rc, vs, err = _rerun(tmp, pure, e2e, c)
    mpix.cleanup(tmp)
    for v in vs:
        print("V " + " ".join("%s=%s" % kv for kv in v.items()))
    hit = [v for v in vs if v["kind"] == c["kind"]]
    print("replay of %s: exit %d, %d violation record(s), %d of kind %s" % (case.get("key"), rc, len(vs), len(hit), c["kind"]))
    return 1 if hit or rc != 0 else 0
