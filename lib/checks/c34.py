"""C34 — RMA windows behave like shared memory under their locks (engine E7 mpix, harness/mpix/c34/rma.cpp, model_checking).

The interpreter enumerates, bound by bound (R ranks, N operations in total, at most 3 per rank), every program over
{Put, Get, Accumulate(SUM), Get_accumulate(SUM), Compare_and_swap(compare = initial value | 0)} x target rank x 2 window
cells in which two operations touch the same cell, under three synchronisations: one fence epoch, one exclusive
lock/unlock per operation, lock_all with a flush after every operation. The reference applies plain sequential memory
operations in every order the synchronisation allows (fence: all permutations; the two others: interleavings that keep
each origin's order), exploring that state space completely; programs MPI-3.1 11.7 leaves undefined (a location updated
by conflicting non-atomic operations in one epoch / from two origins under a shared lock) are not run. The program is
then run on SMPI and the final memory of every rank plus every fetched value must be one of the reference's results."""
import os, re, sys, json, time, struct, itertools
import common, mpix
from common import Violation

ENGINE = "mpix"
CFG = ["smpi/privatization:no", "debug/stacktrace:none"]
MODES = ["fence", "exclusive-lock", "lock_all+flush"]
# (R, N, shards): completed in this order; a bound is completed or not started
BOUNDS = {"quick": [(2, 1, 1), (2, 2, 1), (2, 3, 64)],
          "thorough": [(2, 1, 1), (2, 2, 1), (2, 3, 64), (2, 4, 256), (3, 2, 4), (3, 3, 64), (2, 5, 512), (3, 4, 1024)]}
COUNTERS = ["generated", "relevant", "runs", "multi", "states", "transitions", "outcomes", "violations", "conflicts", "undefined"]
DESCR = {"memory": "the final window memory is not the result of any order of the operations that the synchronisation allows",
         "fetched-value": "a value fetched by Get / Get_accumulate / Compare_and_swap is not the one of any allowed order (memory itself is an allowed result)"}


def exit2(msg):
    common.log(msg)
    return SystemExit(2)


def bname(R, N):
    return "R=%d N=%d" % (R, N)


def bound_size(R, N):
    dists = sum(1 for k in itertools.product(range(4), repeat=R) if sum(k) == N)
    return dists * (12 * R) ** N


def binary():
    return mpix.build_smpi("c34rma", ["c34/rma.cpp"], cxx=True)


def launch(tmp, b, R, N, shard, nshards, extra, timeout=900):
    score = os.path.join(tmp, "score-%d-%d-%d-%d" % (R, N, shard, os.getpid()))
    with open(score, "wb") as f:
        f.write(b"\xff" * 4096)
    rc, out, err = mpix.smpirun(tmp, b, R, args=[R, N, shard, nshards, "score=" + score] + list(extra), cfg=CFG,
                                timeout=max(20, timeout))
    vals = struct.unpack("32q", open(score, "rb").read(8 * 32))
    os.unlink(score)
    return rc, out, err, vals


def od_arg(vals):
    return "od=%d:%d:%s" % (vals[18], vals[0], ",".join(str(vals[20 + j]) for j in range(vals[19])))


def parse(out):
    vs, n, p = [], None, None
    for line in out.splitlines():
        if line.startswith("V "):
            m = re.match(r"V kind=(\S+) mode=(\d) index=(\d+) prog=(\S+) obs=(\S*) allowed=(\S*)", line)
            if m:
                vs.append({"kind": m.group(1), "mode": int(m.group(2)), "index": int(m.group(3)), "prog": m.group(4),
                           "obs": m.group(5), "allowed": m.group(6)})
        elif line.startswith("N "):
            n = {k: int(v) for k, v in (kv.split("=") for kv in line.split()[1:])}
        elif line.startswith("P "):
            m = re.match(r"P index=(\d+) prog=(\S+)", line)
            p = {"prog": m.group(2)}
        elif line.startswith("HARNESS-ERROR"):
            raise exit2("C34: " + line)
    return vs, n, p


def death_kind(rc, err):
    if "Deadlock detected" in err:
        return "deadlock"
    if rc == 124:
        return "hang"
    m = re.search(r"/CRITICAL\] (.*)", err)
    if m:
        return "crash:" + re.sub(r"[^A-Za-z0-9_=<>-]+", "-", re.sub(r"\d+", "N", m.group(1)))[:48].strip("-")
    return "crash:exit%s" % rc


def alone(tmp, b, R, N, prog, mode):
    """One program under one synchronisation mode in a simulation of its own: the violation record, or None."""
    if prog == "-":
        rc, out, err, vals = launch(tmp, b, R, 0, 0, 1, [], timeout=120)
        return None if vals[0] == -2 else {"kind": death_kind(rc, err) + ":between-programs", "mode": 0, "prog": "-", "obs": "", "allowed": ""}
    rc, out, err, vals = launch(tmp, b, R, N, 0, 1, ["prog=" + prog, "onlymode=%d" % mode], timeout=120)
    vs, n, p = parse(out)
    if vals[0] != -2:
        return {"kind": death_kind(rc, err), "mode": mode, "prog": prog, "obs": "", "allowed": ""}
    for v in vs:
        if v["mode"] == mode:
            v["prog"] = prog
            return v
    return None


def run_shard(task):
    tmp, b, R, N, shard, nshards, end = task
    if time.time() > end:
        return None
    tot = dict.fromkeys(COUNTERS, 0)
    viol, sims, resume, deaths = [], 0, [], 0
    while True:
        rc, out, err, vals = launch(tmp, b, R, N, shard, nshards, resume, timeout=end + 15 - time.time())
        sims += 1
        if rc == 124 or time.time() > end + 30:
            return None
        vs, n, _ = parse(out)
        viol += vs
        if vals[0] == -2 and n is not None:
            for c in COUNTERS:
                tot[c] += n[c]
            break
        if vals[0] < 0:
            return {"tot": tot, "sims": sims, "viol": viol,
                    "fatal": {"kind": death_kind(rc, err) + ":between-programs", "mode": 0, "prog": "-", "obs": "", "allowed": "", "index": -1}}
        for i, c in enumerate(COUNTERS):
            tot[c] += vals[2 + i]
        # the program in progress killed the simulation: recorded by its odometer position, resumed after it
        viol.append({"kind": death_kind(rc, err), "mode": int(vals[1]), "index": int(vals[0]), "prog": None, "od": od_arg(vals),
                     "obs": "", "allowed": ""})
        resume = [od_arg(vals), "after=%d:%d" % (vals[0], vals[1])]
        deaths += 1
        if deaths > 200:
            raise exit2("C34: more than 200 dead simulations in one shard (R=%d N=%d)" % (R, N))
    return {"tot": tot, "sims": sims, "viol": viol}


def _name(task):
    """text of a program known only by its odometer position"""
    tmp, b, R, N, od = task
    rc, out, err, vals = launch(tmp, b, R, N, 0, 1, [od, "nameonly"], timeout=60)
    m = re.search(r"^P index=\d+ prog=(\S+)", out, re.M)
    return m.group(1) if m else None


def _confirm(task):
    tmp, b, R, N, v = task
    got = [alone(tmp, b, R, N, v["prog"], v["mode"]) for _ in range(2)]
    ok = all(g is not None and g["kind"] == v["kind"] and g["obs"] == v["obs"] for g in got)
    return ok, got


def run(ctx):
    b = binary()
    tmp = common.tmpdir("c34")
    try:
        _run(ctx, b, tmp)
    finally:
        mpix.cleanup(tmp)


def _run(ctx, b, tmp):
    import concurrent.futures as cf
    tot = dict.fromkeys(COUNTERS, 0)
    kinds, done, sims = {}, [], 0
    end = ctx.deadline.end - (10 if ctx.quick else 60)
    with cf.ProcessPoolExecutor(max_workers=common.NCPU) as ex:
        last = None
        for bi, (R, N, ns) in enumerate(BOUNDS[ctx.tier]):
            left = end - time.time()
            if left < 5 or (last is not None and left < last[0] * bound_size(R, N) / max(last[1], 5e5)):
                break
            t0 = time.time()
            order = list(range(ns))
            if ctx.seed:
                import random
                random.Random(ctx.seed).shuffle(order)
            res = list(ex.map(run_shard, [(tmp, b, R, N, s, ns, end) for s in order]))
            fatal = [r["fatal"] for r in res if r is not None and "fatal" in r]
            if fatal:
                kinds[(fatal[0]["kind"], 0)] = {"n": len(fatal), "first": ((bi, "-", R, N), fatal[0])}
                break
            if any(r is None for r in res):
                break
            nameless = [(R, N, v) for r in res for v in r["viol"] if v["prog"] is None]
            for (R_, N_, v), name in zip(nameless, ex.map(_name, [(tmp, b, R_, N_, v["od"]) for R_, N_, v in nameless])):
                if name is None:
                    raise exit2("C34: cannot name the program at %s" % v["od"])
                v["prog"] = name
            for r in res:
                sims += r["sims"]
                for c in COUNTERS:
                    tot[c] += r["tot"][c]
                for v in r["viol"]:
                    k = kinds.setdefault((v["kind"], v["mode"]), {"n": 0, "first": None})
                    k["n"] += 1
                    rank = (bi, v["prog"], R, N)
                    if k["first"] is None or rank < k["first"][0]:
                        k["first"] = (rank, v)
            done.append(bname(R, N))
            last = (time.time() - t0, bound_size(R, N))
        items = sorted(kinds.items())
        conf = list(ex.map(_confirm, [(tmp, b, k["first"][0][2], k["first"][0][3], k["first"][1]) for _, k in items]))
    violations = []
    for ((kind, mode), k), (ok, got) in zip(items, conf):
        rank, v = k["first"]
        if not ok:
            common.log("C34: violation does not reproduce identically alone: %s %s -> %s" % (kind, json.dumps(v), json.dumps(got)))
            raise SystemExit(2)
        key = "%s sync=%s prog=%s" % (kind, MODES[mode], v["prog"])
        what = "%s; first of %d program runs of this kind (R=%d, %d operations); observed memory+fetched %s allowed %s" % (
            DESCR.get(kind, kind), k["n"], rank[2], rank[3], v["obs"] or "-", v["allowed"][:160] or "-")
        violations.append(Violation(key, what, {"R": rank[2], "N": rank[3], "mode": mode, "prog": v["prog"], "kind": kind, "obs": v["obs"]}))
    if not violations and (not done or tot["multi"] < 2 or tot["conflicts"] < 2):
        common.log("C34: vacuous run (bounds done: %s, programs with >= 2 allowed results: %d)" % (done, tot["multi"]))
        raise SystemExit(2)
    all_bounds = [bname(R, N) for R, N, _ in BOUNDS[ctx.tier]]
    coverage = {
        "states": tot["states"], "transitions": tot["transitions"], "traces_validated_against_impl": tot["runs"],
        "samples": ["C(1,0,1)|C(1,0,1) under lock_all+flush", "P(1,0),G(1,0)|A(1,0) under exclusive-lock", "F(0,1)|A(0,1),F(0,1) under fence"],
        "exhaustive": done == all_bounds, "bounds_completed": done, "bounds_planned": all_bounds,
        "programs_enumerated": tot["generated"], "programs_with_two_operations_on_one_cell": tot["relevant"],
        "program_runs_not_defined_by_mpi_skipped": tot["undefined"],
        "program_runs_with_two_origins_on_one_cell": tot["conflicts"],
        "program_runs_with_two_or_more_allowed_results": tot["multi"], "allowed_results": tot["outcomes"],
        "evaluations": tot["runs"], "distinct_nontrivial": tot["multi"],
        "simulations": sims, "implementation_runs_failing": sum(k["n"] for k in kinds.values()),
        "modes": MODES,
        "rule": "states/transitions are those of the reference (sequential memory, every order the synchronisation allows) summed over "
                "the (program, mode) pairs explored; a trace = one run of one program under one mode on SMPI, validated against "
                "the reference's terminal results; non-trivial = at least two different allowed results"}
    assumptions = ["fence allows every permutation of the epoch's operations; an exclusive lock per operation and lock_all with a flush after "
                   "every operation keep the program order of each origin and serialise operations on a target",
                   "programs whose result MPI-3.1 11.7 does not define (conflicting Put/Get/accumulate on one location in an epoch or from two "
                   "origins under a shared lock; Accumulate(SUM) mixed with Compare_and_swap) are not run",
                   "SMPI is deterministic (smpi/simulate-computation:no): one observation per program and mode",
                   "window memory is read by the owner after a barrier that follows the closing synchronisation"]
    common.finish(ctx, "model_checking", coverage, assumptions, violations, engine=ENGINE)


def replay(ctx, case):
    b = binary()
    tmp = common.tmpdir("c34r")
    try:
        c = case["case"]
        got = alone(tmp, b, c["R"], c["N"], c["prog"], c["mode"])
        print("program (R=%d): %s   synchronisation: %s" % (c["R"], c["prog"], MODES[c["mode"]]))
        print("equivalent: smpirun -np %d ./c34rma %d %d 0 1 'prog=%s' onlymode=%d" % (c["R"], c["R"], c["N"], c["prog"], c["mode"]))
        if got is None:
            print("observed: a result the synchronisation allows")
            return 0
        print("observed: %s (%s) memory+fetched=%s allowed=%s" % (got["kind"], DESCR.get(got["kind"], ""), got["obs"], got["allowed"]))
        return 1
    finally:
        mpix.cleanup(tmp)
