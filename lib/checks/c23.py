"""C23 — energy accounting integrates the power model (engine E4/res, level exploration).

Hosts with 1-2 pstates, 1/2/4 cores and power triples from a small set, running every multiset of 1..2 (quick) / 3 (thorough)
execs (plain, bounded, 2 threads) with every sequence of <=2 (quick) / <=3 (thorough) events {pstate switch, host off, host on}
at dates {1,2,3}; links with idle:busy ranges carrying every multiset of comms with an optional off/on episode. Oracle: the
Fraction-exact integral of off / idle / epsilon + load*(max - epsilon) over the intervals of an exact fluid reference, compared
with sg_host_get_consumed_energy / sg_link_get_consumed_energy read (a) only at the end, (b) at every time advance (then also
non-decreasing)."""
import itertools
from fractions import Fraction as F
import common, reslib
from reslib import Scen, pack, close, fluid

S = 1e9
BW = 1e8
HORIZON = 16
WATTS = {"A": ("100:120:200", "90:100:150", "10"),     # idle:epsilon:max per pstate, off
         "B": ("95:190", "80:160", "5")}                # two-value form: epsilon = idle


def triple(spec):
    v = [F(x) for x in spec.split(":")]
    return (v[0], v[0], v[1]) if len(v) == 2 else tuple(v)


# ---------------------------------------------------------------------------------------------------- host scenarios
def host_scen(sid, cores, npst, wset, variants, events, mode):
    """variants: (flops multiple, start, attr in plain|bound|thr); events: ((date, kind),) kind in P (toggle pstate) F (off) N (on)"""
    c = Scen(sid)
    h = c.n("h")
    speeds = [S, S / 2][:npst]
    w = WATTS[wset]
    c.add("host", h, cores, ",".join(reslib.fnum(x) for x in speeds), "prop:wattage_per_state=" + ",".join(w[:npst]),
          "prop:wattage_off=" + w[2])
    acts, evs = [], []
    for i, (wk, st, attr) in enumerate(variants):
        aid = c.n("e%d" % i)
        opt = {"plain": [], "bound": ["bound=%s" % reslib.fnum(S / 2)], "thr": ["threads=2"]}[attr]
        c.add("act", aid, "exec", float(st), h, wk * S, *opt)
        T = 2 if attr == "thr" else 1
        acts.append({"id": aid, "start": F(st), "cost": F(wk * S) * T, "penalty": F(1, T), "T": T,
                     "ubound": F(S) / 2 if attr == "bound" else None, "uses": {h: 1}})
    p, on = 0, True
    states = []     # (date, on, pstate)
    for d, k in events:
        if k == "P":
            p = 1 - p
            c.add("ev", float(d), "pstate", h, p)
            evs.append((F(d), "cap", h, F(cores) * F(speeds[p])))
            for a in acts:
                b = F(speeds[p]) * a["T"]
                evs.append((F(d), "bound", a["id"], min(b, a["ubound"]) if a["ubound"] is not None else b))
        elif k == "F":
            on = False
            c.add("ev", float(d), "hostoff", h)
            evs.append((F(d), "fail", h, None))
        elif k == "N":
            on = True
            c.add("ev", float(d), "hoston", h)
            evs.append((F(d), "restore", h, None))
        states.append((F(d), on, p))
    for a in acts:
        a["bound"] = min(F(S) * a["T"], a["ubound"]) if a["ubound"] is not None else F(S) * a["T"]
    c.meta = {"kind": "host", "res": h, "cores": cores, "speeds": [F(x) for x in speeds],
              "watts": [list(triple(x)) for x in w[:npst]], "off": F(w[2]), "acts": acts, "evs": evs, "states": states,
              "mode": mode,
              "label": "host cores=%d pstates=%d watts=%s | %s | events %s | read %s" % (
                  cores, npst, wset, " ".join("%gx@%g:%s" % v for v in variants),
                  " ".join("%s@%g" % (k, d) for d, k in events) or "-", "at-end" if mode == 1 else "every-advance")}
    return c


def event_seqs(npst, maxlen):
    """All legal sequences of <= maxlen events at strictly increasing dates in {1,2,3}."""
    out = [()]
    for n in range(1, maxlen + 1):
        for dates in itertools.combinations((1, 2, 3), n):
            for kinds in itertools.product("PFN", repeat=n):
                on, ok = True, True
                for k in kinds:
                    if k == "P" and (npst < 2 or not on):
                        ok = False
                    elif k == "F":
                        if not on:
                            ok = False
                        on = False
                    elif k == "N":
                        if on:
                            ok = False
                        on = True
                if ok:
                    out.append(tuple(zip(dates, kinds)))
    return out


def host_power(m, on, p, load):
    if not on:
        return m["off"]
    idle, eps, mx = m["watts"][p]
    return idle if load == 0 else eps + load * (mx - eps)


def host_energy_ref(m, upto):
    """[(t0, t1, power)] until `upto` from the exact fluid timeline and the event list."""
    res, timeline = fluid([dict(a) for a in m["acts"]], {m["res"]: {"cap": F(m["cores"]) * m["speeds"][0]}}, m["evs"], horizon=upto)
    segs = []
    for t0, t1, rates in timeline:
        if t0 >= upto:
            break
        on, p = True, 0
        for d, o, pp in m["states"]:
            if d <= t0:
                on, p = o, pp
        load = sum(rates.values(), F(0)) / (F(m["cores"]) * m["speeds"][p])
        segs.append((t0, min(t1, F(upto)), host_power(m, on, p, load)))
    return segs


class Integral:
    """Cumulative energy of a power timeline [(t0, t1, W)]: exact, O(log n) per query."""

    def __init__(self, segs):
        self.segs = segs
        self.starts = [float(t0) for t0, _, _ in segs]
        self.cum = []
        e = F(0)
        for t0, t1, pw in segs:
            self.cum.append(e)
            e += pw * (t1 - t0)

    def at(self, t):
        import bisect
        i = bisect.bisect_right(self.starts, float(t)) - 1
        if i < 0:
            return F(0)
        t0, t1, pw = self.segs[i]
        return self.cum[i] + pw * (min(F(t), t1) - t0)


def energy_at(segs, t):
    return Integral(segs).at(t)


# ---------------------------------------------------------------------------------------------------- link scenarios
ROUTES = {"ab": ("a", "b", ["l1"]), "ba": ("b", "a", ["l1"]), "bc": ("b", "c", ["l2"]), "ac": ("a", "c", ["l1", "l2"])}
LWATTS = {"l1": ("100:200", "10"), "l2": ("50:80", "5")}


def link_scen(sid, variants, offon, mode):
    """variants: (size multiple, start, route); offon: None or (date off, date on) for link l1"""
    c = Scen(sid)
    for h in "abc":
        c.add("host", c.n(h), 1, S)
    for l in ("l1", "l2"):
        c.add("link", c.n(l), BW, 0, "SHARED", "prop:wattage_range=" + LWATTS[l][0], "prop:wattage_off=" + LWATTS[l][1])
    c.add("route", c.n("a"), c.n("b"), c.n("l1"))
    c.add("route", c.n("b"), c.n("c"), c.n("l2"))
    c.add("route", c.n("a"), c.n("c"), c.n("l1") + "," + c.n("l2"))
    acts, evs = [], []
    for i, (w, st, rt) in enumerate(variants):
        src, dst, links = ROUTES[rt]
        aid = c.n("c%d" % i)
        c.add("act", aid, "comm", float(st), c.n(src), c.n(dst), w * BW)
        acts.append({"id": aid, "start": F(st), "cost": F(w * BW), "penalty": F(1), "bound": F(BW),
                     "uses": {c.n(l): F(1) for l in links}})
    if offon:
        c.add("ev", float(offon[0]), "linkoff", c.n("l1"))
        c.add("ev", float(offon[1]), "linkon", c.n("l1"))
        evs = [(F(offon[0]), "fail", c.n("l1"), None), (F(offon[1]), "restore", c.n("l1"), None)]
    c.meta = {"kind": "link", "acts": acts, "evs": evs, "offon": [F(x) for x in offon] if offon else None, "mode": mode,
              "links": {c.n(l): {"idle": F(LWATTS[l][0].split(":")[0]), "busy": F(LWATTS[l][0].split(":")[1]),
                                 "off": F(LWATTS[l][1])} for l in ("l1", "l2")},
              "label": "link %s | l1 %s | read %s" % (" ".join("%gx@%g:%s" % v for v in variants),
                                                      "off@%g on@%g" % offon if offon else "always on",
                                                      "at-end" if mode == 1 else "every-advance")}
    return c


def link_energy_ref(m, upto, off_as_idle=False):
    res, timeline = fluid([dict(a) for a in m["acts"]], {l: {"cap": F(BW)} for l in m["links"]}, m["evs"], horizon=upto)
    out = {}
    for l, w in m["links"].items():
        segs = []
        for t0, t1, rates in timeline:
            if t0 >= upto:
                break
            off = m["offon"] and l.endswith("l1") and m["offon"][0] <= t0 < m["offon"][1]
            load = sum((r for a, r in rates.items() if l in next(x for x in m["acts"] if x["id"] == a)["uses"]), F(0)) / F(BW)
            # documented (plugin_link_energy): idle + load*(busy-idle) when on, wattage_off when off
            segs.append((t0, min(t1, F(upto)), (w["idle"] if off_as_idle else w["off"]) if off
                         else w["idle"] + load * (w["busy"] - w["idle"])))
        out[l] = segs
    return out


# ---------------------------------------------------------------------------------------------------- bounds
EXEC_ALPHA_Q = list(itertools.product((1, 2), (0, 0.5), ("plain", "bound", "thr")))
EXEC_ALPHA_T = list(itertools.product((1, 2), (0, 0.5, 2.5), ("plain", "bound", "thr")))
COMM_ALPHA = list(itertools.product((1, 2), (0, 0.5), ("ab", "ba", "bc", "ac")))
NETCFG = [("network/model", "CM02"), ("network/TCP-gamma", 0), ("network/crosstraffic", "0")]
PACK = 60


def head(mode, plugin):
    return ["plugin " + plugin, "waiters 1", "horizon %d" % HORIZON, "energy %d" % mode] + (["sample 1"] if mode == 2 else [])


def bounds_for(ctx):
    B = []
    hostsets = [(1, 2, "A"), (2, 2, "B")] if ctx.quick else \
        [(c_, n_, w_) for c_ in (1, 2, 4) for n_ in (1, 2) for w_ in ("A", "B")]
    alpha = EXEC_ALPHA_Q if ctx.quick else EXEC_ALPHA_T
    maxev = 2 if ctx.quick else 3

    def g_host(k, nev, hsets=None, alph=None):
        def gen():
            out = []
            for mode in (1, 2):
                sc = []
                for cores, npst, wset in (hsets or hostsets):
                    for ev in event_seqs(npst, nev):
                        if len(ev) != nev:
                            continue
                        for v in itertools.combinations_with_replacement(alph or alpha, k):
                            if cores == 1 and any(a == "thr" for _, _, a in v):
                                continue
                            sc.append(host_scen("h%d" % len(sc), cores, npst, wset, v, ev, mode))
                out += pack("he%d_%d_m%d_" % (k, nev, mode), [], sc, PACK, head(mode, "host_energy"))
            return out
        return gen

    def g_link(k):
        def gen():
            out = []
            for mode in (1, 2):
                sc = []
                for offon in (None, (1, 2), (1, 3)) if not ctx.quick else (None, (1, 2)):
                    for v in itertools.combinations_with_replacement(COMM_ALPHA, k):
                        sc.append(link_scen("l%d" % len(sc), v, offon, mode))
                out += pack("le%d_m%d_" % (k, mode), NETCFG, sc, PACK, head(mode, "link_energy"))
            return out
        return gen

    for k in (1, 2) if ctx.quick else (1, 2, 3):
        B.append(("link energy: %d comm(s) x {always on, off/on episode}" % k, g_link(k)))
    for k in (1, 2):
        for nev in range(0, maxev + 1):
            B.append(("host energy: %d exec(s) x %d event(s)" % (k, nev), g_host(k, nev)))
    if not ctx.quick:
        for nev in (0, 1):
            B.append(("host energy: 3 execs x %d event(s) on 2 hosts (2 and 4 cores, 2 pstates)" % nev,
                      g_host(3, nev, [(2, 2, "A"), (4, 2, "B")], EXEC_ALPHA_Q)))
    return B


# ---------------------------------------------------------------------------------------------------- oracle
_cache = {}


def judge(sc, r, case=None, _alt=False):
    m = sc.meta
    lab = m["label"]
    if r["status"] != "exit=0":
        return [("C23 %s harness-status" % lab, "harness ended with %s: %s" % (r["status"], r["raw"][-300:]))], None, "crash"
    fails = []
    if m["kind"] == "host":
        refs = {m["res"]: host_energy_ref(m, HORIZON)}
        ekind, grp = "host", "H"
    else:
        refs = link_energy_ref(m, HORIZON, off_as_idle=_alt)
        ekind, grp = "link", "L"
    levels = set()
    for name, segs in refs.items():
        levels |= {pw for _, _, pw in segs}
        integ = Integral(segs)
        final = [e for e in r["energy"] if e["kind"] == ekind and e["name"] == name]
        if not final:
            fails.append(("C23 %s no-reading" % lab, "no final energy reading for " + name))
            continue
        want = integ.at(final[0]["t"])
        if not close(final[0]["energy"], want, 1e-9, 1e-9):
            fails.append(("C23 %s final-energy" % lab, "%s: %.17g J reported at t=%.17g, exact integral %.17g J; power timeline %s" % (
                name[len(sc.p):], final[0]["energy"], final[0]["t"], float(want),
                " ".join("[%g,%g]:%gW" % (float(a), float(b), float(pw)) for a, b, pw in segs))))
        if m["mode"] == 2:
            prev = None
            for s in r["samples"]:
                v = s[grp].get(name)
                if v is None or "energy" not in v:
                    continue
                if prev is not None and v["energy"] < prev - 1e-9 * abs(prev):
                    fails.append(("C23 %s energy-decreases" % lab, "%s: %.17g J then %.17g J at t=%.17g" % (name[len(sc.p):], prev, v["energy"], s["t"])))
                    break
                prev = v["energy"]
                want = integ.at(s["t"])
                if not close(v["energy"], want, 1e-9, 1e-9):
                    fails.append(("C23 %s energy-at-date" % lab, "%s: %.17g J reported at t=%.17g, exact integral %.17g J; power timeline %s" % (
                        name[len(sc.p):], v["energy"], s["t"], float(want),
                        " ".join("[%g,%g]:%gW" % (float(a), float(b), float(pw)) for a, b, pw in segs))))
                    break
    note2 = ""
    if fails and m["kind"] == "link" and m["offon"] and not _alt:
        # The statement only speaks of idle/busy power for links; the plugin's documentation also describes a
        # `wattage_off` property that the code never reads. Both readings of the off interval are accepted.
        f2, nt2, n2 = judge(sc, r, case, _alt=True)
        if not f2:
            return [], nt2, n2 + " (off interval counted at idle power: wattage_off ignored)"
    if fails and m["kind"] == "link" and m["mode"] == 1 and len(m["acts"]) >= 2 and any(len(a["uses"]) > 1 for a in m["acts"]) \
            and all(k.endswith("final-energy") for k, _ in fails):
        # read-at-end only, a flow crossing both links shares one of them with another flow: the plugin updates a link only
        # when a comm starts/ends *on that link*, so a rate change caused by an event on the other link is integrated late
        fails = [("C23 link energy read lazily: a load change caused by a comm that starts/ends on another link is integrated with the later load",
                  lab + ": " + fails[0][1])]
    seen = set()
    fails = [f for f in fails if not (f[0] in seen or seen.add(f[0]))]
    nt = len(levels) >= 3
    return fails, nt, m["kind"] + ("/>=3 power levels" if nt else "/<3 power levels") + ("!" if fails else "")


RULE = ("hosts {1,2,4 cores} x {1,2 pstates} x 2 power tables (3-value and 2-value form) x every multiset of k execs over "
        "{1,2}xS flops x start {0,0.5(,2.5)} x {plain, bound S/2, 2 threads} x every legal sequence of n events (pstate toggle, off, on) at "
        "increasing dates in {1,2,3}; links l1,l2 with idle:busy ranges x every multiset of k comms over 4 routes x {always on, l1 off/on}; "
        "each read at the end only and at every time advance. Non-trivial = the exact power timeline has >=3 distinct power levels.")
ASSUME = ["power model as documented in the plugins: off -> wattage_off; on and unloaded -> Idle; otherwise Epsilon + load*(AllCores-Epsilon) "
          "with load = delivered flop/s / (cores * speed of the current pstate); links: idle + load*(busy-idle), wattage_off when off",
          "loads come from the exact max-min fluid reference (lib/reslib.py), pstate changes rescale capacity and per-exec bounds",
          "one actor per activity waits for it (as a user program would) so that completion callbacks fire at the completion date",
          "CM02, TCP-gamma 0, no cross-traffic, latency 0 for the link scenarios; tolerance 1e-9 relative + 1e-9 J"]


def run(ctx):
    reslib.harness()
    reslib.drive(ctx, bounds_for(ctx), judge, rule=RULE, assumptions=ASSUME)


def replay(ctx, case):
    reslib.harness()
    return reslib.replay_case(ctx, case, judge)
