"""C21 — work is conserved and capacity is respected over time (engine E4/res, level exploration).

All multisets of 1..3 (quick) / 4 (thorough) activities drawn from small alphabets (execs with bounds / priorities / threads
on 1-,2-,4-core hosts; k equal execs on n cores; comms over 1-2 shared links; I/Os on one disk), every scenario sampled at
every on_time_advance of the real simulator. Oracles: invariants on the samples (statement) + an exact fluid reference."""
import itertools
from fractions import Fraction as F
import common, reslib
from reslib import Scen, pack, close, fluid

S = 1e9          # host speed (flop/s per core)
BW = 1e8         # link bandwidth
RB, WB = 4e6, 2e6  # disk read / write bandwidth
XTW = F(105, 100)  # documented cross-traffic: the reverse route carries 5% of the flow


# ---------------------------------------------------------------------------------------------------- scenarios
def exec_scen(sid, cores, variants, optim):
    """variants: tuple of (flops multiple, start, attr) with attr in plain|bound|prio|thr"""
    c = Scen(sid)
    h = c.n("h")
    c.add("host", h, cores, S)
    acts = []
    for i, (w, st, attr) in enumerate(variants):
        aid = c.n("e%d" % i)
        opt = {"plain": [], "bound": ["bound=%s" % reslib.fnum(S / 2)], "prio": ["prio=2"], "thr": ["threads=2"]}[attr]
        c.add("act", aid, "exec", float(st), h, w * S, *opt)
        T = 2 if attr == "thr" else 1
        acts.append({"id": aid, "start": F(st), "cost": F(w * S) * T, "penalty": F(1, 2) if attr in ("prio", "thr") else F(1),
                     "bound": F(S) / 2 if attr == "bound" else F(S) * T, "uses": {h: 1}})
    c.meta = {"kind": "exec", "ti": optim == "TI", "acts": acts, "res": {h: {"cap": F(S) * cores}}, "label": "exec cores=%d %s [%s]" % (
        cores, " ".join("%gx@%g:%s" % v for v in variants), optim)}
    return c


def kequal_scen(sid, k, n, optim):
    c = exec_scen(sid, n, tuple((1, 0, "plain") for _ in range(k)), optim)
    c.meta["kequal"] = [k, n]
    c.meta["label"] = "k=%d equal execs on n=%d cores [%s]" % (k, n, optim)
    return c


ROUTES = {"ab": ("a", "b", ["l1"]), "ba": ("b", "a", ["l1"]), "bc": ("b", "c", ["l2"]), "ac": ("a", "c", ["l1", "l2"])}


def comm_scen(sid, variants, xt, policy, cfgname):
    """variants: tuple of (size multiple, start, route)"""
    c = Scen(sid)
    for h in "abc":
        c.add("host", c.n(h), 1, S)
    for l in ("l1", "l2"):
        c.add("link", c.n(l), BW, 0, policy)
    c.add("route", c.n("a"), c.n("b"), c.n("l1"))
    c.add("route", c.n("b"), c.n("c"), c.n("l2"))
    c.add("route", c.n("a"), c.n("c"), c.n("l1") + "," + c.n("l2"))
    acts = []
    for i, (w, st, rt) in enumerate(variants):
        src, dst, links = ROUTES[rt]
        aid = c.n("c%d" % i)
        c.add("act", aid, "comm", float(st), c.n(src), c.n(dst), w * BW)
        acts.append({"id": aid, "start": F(st), "cost": F(w * BW), "penalty": F(1), "bound": F(BW),
                     # SHARED: the flow and its 5% reverse traffic add up on the link; FATPIPE: nothing adds up on such a
                     # link (every flow, the reverse one included, is limited separately), so the weight stays 1
                     "uses": {c.n(l): (XTW if (xt and policy == "SHARED") else F(1)) for l in links}})
    c.meta = {"kind": "comm", "acts": acts, "res": {c.n(l): {"cap": F(BW), "fat": policy == "FATPIPE"} for l in ("l1", "l2")},
              "label": "comm %s [%s]" % (" ".join("%gx@%g:%s" % v for v in variants), cfgname)}
    return c


def io_scen(sid, variants):
    """variants: tuple of (size multiple of 1e6, start, op)"""
    c = Scen(sid)
    c.add("host", c.n("h"), 1, S)
    d = c.n("d")
    c.add("disk", d, c.n("h"), RB, WB)
    acts = []
    for i, (w, st, op) in enumerate(variants):
        aid = c.n("i%d" % i)
        c.add("act", aid, "io", float(st), d, op, w * 1e6)
        acts.append({"id": aid, "start": F(st), "cost": F(w * 1e6), "penalty": F(1), "bound": None,
                     "uses": {d: 1, d + (":r" if op == "read" else ":w"): 1}})
    c.meta = {"kind": "io", "acts": acts,
              "res": {d: {"cap": F(max(RB, WB))}, d + ":r": {"cap": F(RB)}, d + ":w": {"cap": F(WB)}},
              "label": "io %s" % " ".join("%gx@%g:%s" % v for v in variants)}
    return c


EXEC_ALPHA = list(itertools.product((1, 2), (0, 0.5), ("plain", "bound", "prio", "thr")))
COMM_ALPHA = list(itertools.product((1, 2), (0, 0.5), ("ab", "ba", "bc", "ac")))
IO_ALPHA = list(itertools.product((1, 2), (0, 0.5), ("read", "write")))
HEAD = ["sample 1"]
CPU_CFG = {"Lazy": [("cpu/optim", "Lazy")], "Full": [("cpu/optim", "Full")], "TI": [("cpu/optim", "TI")]}
NETBASE = [("network/model", "CM02"), ("network/TCP-gamma", 0)]
NET_CFG = {"xt0/Lazy": (0, NETBASE + [("network/crosstraffic", "0"), ("network/optim", "Lazy")]),
           "xt1/Full": (1, NETBASE + [("network/crosstraffic", "1"), ("network/optim", "Full")]),
           "xt1/Lazy": (1, NETBASE + [("network/crosstraffic", "1"), ("network/optim", "Lazy")]),
           "xt0/Full": (0, NETBASE + [("network/crosstraffic", "0"), ("network/optim", "Full")])}
PACK = 48


def multisets(alpha, k):
    return itertools.combinations_with_replacement(alpha, k)


def twins(prefix, cfg, scens, size):
    """The sampled simulations (observing the remaining work makes the lazy models update it at every step) and the same
    scenarios in unsampled simulations, where only the dates are judged: the observation must not hide a late update."""
    import copy
    plain = []
    for sc in scens:
        t = copy.copy(sc)
        t.meta = dict(sc.meta, unsampled=True)
        plain.append(t)
    return pack(prefix, cfg, scens, size, HEAD) + pack(prefix + "u", cfg, plain, 4 * size if size > 1 else 1, ["sample 0"])


def bounds_for(ctx):
    B = []

    def g_kequal():
        out = []
        for optim in ("Lazy", "Full"):
            sc = [kequal_scen("q%d" % i, k, n, optim) for i, (k, n) in enumerate(itertools.product(range(1, 5), repeat=2))]
            out += twins("keq" + optim, CPU_CFG[optim], sc, PACK)
        sc = [kequal_scen("q%d" % i, k, 1, "TI") for i, k in enumerate(range(1, 5))]
        out += twins("keqTI", CPU_CFG["TI"], sc, PACK)
        return out

    def g_exec(k, coreset, optims):
        def gen():
            out = []
            for optim in optims:
                sc = []
                for cores in coreset:
                    for v in multisets(EXEC_ALPHA, k):
                        if optim == "TI" and (cores != 1 or any(a in ("bound", "thr") for _, _, a in v)):
                            continue
                        sc.append(exec_scen("x%d" % len(sc), cores, v, optim))
                out += twins("ex%d%s_" % (k, optim), CPU_CFG[optim], sc, PACK)
            return out
        return gen

    def g_comm(k, cfgs, policies):
        def gen():
            out = []
            for name in cfgs:
                xt, cfg = NET_CFG[name]
                for pol in policies:
                    sc = [comm_scen("m%d" % i, v, xt, pol, name + ("" if pol == "SHARED" else "/" + pol))
                          for i, v in enumerate(multisets(COMM_ALPHA, k))]
                    out += twins("cm%d%s%s_" % (k, name.replace("/", ""), pol[0]), cfg, sc, PACK)
            return out
        return gen

    def g_io(k):
        def gen():
            # every I/O scenario alone in its simulation: the disk model rounds progress per simulation step (see C20)
            sc = [io_scen("i%d" % i, v) for i, v in enumerate(multisets(IO_ALPHA, k))]
            return twins("io%d_" % k, [], sc, 1)
        return gen

    B.append(("k equal execs on n cores, k,n in 1..4", g_kequal))
    if ctx.quick:
        for k in (1, 2, 3):
            B.append(("execs: multisets of %d, cores 1,2 (Lazy,Full)" % k, g_exec(k, (1, 2), ("Lazy", "Full"))))
            B.append(("comms: multisets of %d (xt0/Lazy, xt1/Full; SHARED)" % k, g_comm(k, ("xt0/Lazy", "xt1/Full"), ("SHARED",))))
        for k in (1, 2):
            B.append(("I/Os: multisets of %d" % k, g_io(k)))
    else:
        for k in (1, 2, 3, 4):
            if k < 4:
                B.append(("execs: multisets of %d, cores 1,2,4 (Lazy,Full,TI)" % k, g_exec(k, (1, 2, 4), ("Lazy", "Full", "TI"))))
            else:
                B.append(("execs: multisets of 4, cores 1,2 (Lazy,Full)", g_exec(4, (1, 2), ("Lazy", "Full"))))
            B.append(("comms: multisets of %d (4 configs; SHARED,FATPIPE)" % k,
                      g_comm(k, ("xt0/Lazy", "xt1/Full", "xt1/Lazy", "xt0/Full") if k < 4 else ("xt0/Lazy", "xt1/Full"),
                             ("SHARED", "FATPIPE") if k < 4 else ("SHARED",))))
        for k in (1, 2, 3):
            B.append(("I/Os: multisets of %d" % k, g_io(k)))
    return B


# ---------------------------------------------------------------------------------------------------- oracle
_refcache = {}


def reference(m):
    key = m["label"]
    if key not in _refcache:
        _refcache[key] = fluid(m["acts"], m["res"])
    return _refcache[key]


def judge(sc, r, case=None):
    m = sc.meta
    lab = m["label"]
    if r["status"] != "exit=0":
        return [("C21 %s harness-status" % lab, "harness ended with %s: %s" % (r["status"], r["raw"][-300:]))], None, "crash"
    fails = []
    U = " (unsampled run)" if m.get("unsampled") else ""
    ref, timeline = reference(m)
    samples = [s for s in r["samples"] if s["where"] == "adv"]
    times = [0.0] + [s["t"] for s in samples]
    contended = False
    for a in m["acts"]:
        aid = a["id"]
        o = r["acts"].get(aid)
        cost = a["cost"]
        if o is None or o["state"] != "FINISHED":
            fails.append(("C21 %s%s not-finished" % (lab, U), "%s ended in state %s" % (aid, o and o["state"])))
            continue
        rf = ref[aid]
        if not close(o["start"], rf["start"]) or not close(o["finish"], rf["finish"]):
            fails.append(("C21 %s%s dates" % (lab, U), "%s ran [%.17g, %.17g], exact fluid reference [%s, %s] = [%.17g, %.17g]" % (
                aid, o["start"], o["finish"], rf["start"], rf["finish"], float(rf["start"]), float(rf["finish"]))))
        if m.get("unsampled"):
            continue
        # --- invariants on the samples
        tol = F(1, 10**9) * cost
        prev_rem, prev_t = None, F(o["start"])
        received = F(0)
        seen_zero_at = None
        for s in samples:
            x = s["R"].get(aid)
            t = F(s["t"])
            if x is None or x["rem"] is None:
                if t > F(o["start"]) and seen_zero_at is None and t <= F(o["finish"]):
                    fails.append(("C21 %s sample-missing" % lab, "%s has no action at t=%.17g inside its life" % (aid, s["t"])))
                if t > F(o["start"]):
                    prev_t = t
                continue
            rem = F(x["rem"])
            if prev_rem is not None and rem > prev_rem + tol:
                fails.append(("C21 %s remaining-increases" % lab, "%s: remaining %.17g -> %.17g at t=%.17g" % (
                    aid, float(prev_rem), x["rem"], s["t"])))
            if prev_rem is None and rem > cost + tol:
                fails.append(("C21 %s remaining-above-cost" % lab, "%s: remaining %.17g > requested %.17g" % (aid, x["rem"], float(cost))))
            dt = t - prev_t
            rate = F(x["rate"])
            if m.get("ti"):     # the TI model has no LMM variable (Action::get_rate() is 0): use the observed progress
                rate = ((prev_rem if prev_rem is not None else cost) - rem) / dt if dt > 0 else F(0)
            received += rate * dt
            if "kequal" in m and dt > 0:
                k_, n_ = m["kequal"]
                want = F(S) * min(F(1), F(n_, k_))
                prog = ((prev_rem if prev_rem is not None else cost) - rem) / dt
                if not close(prog, want) or not close(rate, want):
                    fails.append(("C21 %s rate" % lab, "%s progressed by %.17g flop/s (rate attribute %.17g) over [%.17g,%.17g], "
                                  "expected S*min(1,n/k) = %.17g" % (aid, float(prog), float(rate), float(prev_t), s["t"], float(want))))
            if prev_rem is not None and abs((prev_rem - rem) - rate * dt) > 2 * tol:
                fails.append(("C21 %s remaining-vs-rate" % lab, "%s: remaining went %.17g -> %.17g over %.17g s at rate %.17g" % (
                    aid, float(prev_rem), x["rem"], float(dt), x["rate"])))
            if x["state"] == "FINISHED":
                if rem != 0:
                    fails.append(("C21 %s remaining-nonzero-at-completion" % lab, "%s: remaining %.17g when finished" % (aid, x["rem"])))
                if seen_zero_at is None:
                    seen_zero_at = t
                    if not close(t, o["finish"], 0, 1e-9):
                        fails.append(("C21 %s completion-date-vs-zero" % lab, "%s: remaining reached 0 at %.17g, finish time %.17g" % (
                            aid, s["t"], o["finish"])))
            elif rem <= 0:
                fails.append(("C21 %s zero-before-completion" % lab, "%s: remaining %.17g while still running at t=%.17g" % (
                    aid, x["rem"], s["t"])))
            prev_rem, prev_t = rem, t
        if seen_zero_at is None:
            fails.append(("C21 %s never-sampled-finished" % lab, "%s: no sample shows it finished" % aid))
        elif abs(received - cost) > 4 * tol:
            fails.append(("C21 %s work-received" % lab, "%s: integral of its rate = %.17g, requested %.17g" % (
                aid, float(received), float(cost))))
    # --- capacity at every date
    for s in samples:
        for kind, capf in (("H", lambda n, v: F(v["speed"]) * F(v["avail"]) * int(v["cores"])), ("L", lambda n, v: F(v["bw"]))):
            for n, v in s[kind].items():
                if n.startswith(sc.p) and v["load"] > capf(n, v) * (1 + F(1, 10**9)):
                    fails.append(("C21 %s over-capacity" % lab, "%s load %.17g > capacity %.17g at t=%.17g" % (
                        n, v["load"], float(capf(n, v)), s["t"])))
        for n, v in s["D"].items():
            if n.startswith(sc.p):
                for what, cap in (("load", max(v["rbw"], v["wbw"])), ("rload", v["rbw"]), ("wload", v["wbw"])):
                    if v[what] > cap * (1 + 1e-9):
                        fails.append(("C21 %s over-capacity" % lab, "%s %s %.17g > %.17g at t=%.17g" % (n, what, v[what], cap, s["t"])))
    # non-trivial: some activity ran slower than it would alone (a shared constraint was binding)
    for t0, t1, rates in timeline:
        for a in m["acts"]:
            if a["id"] in rates:
                alone = min(([a["bound"]] if a["bound"] is not None else []) +
                            [m["res"][rn]["cap"] / w for rn, w in a["uses"].items()])
                if rates[a["id"]] < alone:
                    contended = True
    seen = set()
    fails = [f for f in fails if not (f[0] in seen or seen.add(f[0]))]
    if m.get("unsampled"):
        return fails, False, m["kind"] + "/unsampled" + ("!" if fails else "")
    return fails, contended, m["kind"] + ("/contended" if contended else "/free") + ("!" if fails else "")


RULE = ("all multisets of 1..k activities over the alphabets exec{1,2 x S flops} x start{0,0.5} x {plain,bound S/2,priority 2,2 threads} "
        "on 1/2/4-core hosts, comm{1,2 x BW bytes} x start{0,0.5} x route{a-b,b-a,b-c,a-c over links l1,l2}, io{1,2 MB} x "
        "start{0,0.5} x {read,write} on one disk, plus k equal execs on n cores for k,n in 1..4; sampled at every "
        "on_time_advance. Non-trivial = the exact reference shows at least one activity slowed down by a shared, saturated resource.")
ASSUME = ["fluid reference: weighted max-min by progressive filling in exact rationals (lib/reslib.py maxmin/fluid), with the documented "
          "meanings of priority (share proportional), bound, thread count (W flops per thread) and 5% cross-traffic",
          "link latencies are 0 and the network model is CM02 with TCP-gamma 0 so that sharing between comms is the plain fair "
          "share (RTT-dependent weights are outside the statement)",
          "scenarios sharing a configuration run in one simulation on disjoint resources; I/O scenarios run alone because "
          "the disk model rounds progress per simulation step (known finding of C20)",
          "tolerance 1e-9 relative (+1e-9 s on dates)"]


def run(ctx):
    reslib.harness()
    reslib.drive(ctx, bounds_for(ctx), judge, rule=RULE, assumptions=ASSUME)


def replay(ctx, case):
    reslib.harness()
    return reslib.replay_case(ctx, case, judge)
