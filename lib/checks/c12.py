"""C12 — timed waits are exact (engine E4 `sim` + lib/timed_ref.py, level exploration).

Enumerated grid (every point is run for real, one simulation each):
  member role  in {exec, io-read, io-write, comm-get, comm-put, mess-get, mess-put}
  completion c in {1,2,3} (natural completion c seconds after the call; dates are dyadic, "equal" is bit-equal)
  timeout    t in {1,2,3}
  flavour      wait_for | wait_for_or_cancel  x  {started by *_async, not started (*_init: the wait starts it)}
               ActivitySet::wait_any_for with 1..3 members (all role/c combinations, in every set order)
  call date s0 in {0, 0.5}
Oracle: the observation (all per-actor logs with exact dates) must be a member of timed_ref.allowed(program); for
wait_for the tie c == t is fixed by the statement (completed), for wait_any_for it is open (both accepted, counted).
A second, closed-form oracle (timeout iff c > t, date = s0 + min(c, t)) guards the reference itself.
"""
import json, os, itertools
from fractions import Fraction as F
import common, simlib, timed_ref

ROLES = ["exec", "io-read", "io-write", "comm-get", "comm-put", "mess-get", "mess-put"]
MB = 2.0 ** 20
GF = 2.0 ** 30


def build_prog(case):
    mem, t, s0 = case["members"], case["t"], case["s0"]
    started = case.get("started", True)
    n = len(mem)
    plat = simlib.default_platform(n + 1, links=[(0, i + 1, MB, 0.5) for i in range(n)])
    plat["hosts"][0]["cores"] = 4
    plat["hosts"][0]["disks"] = [{"name": "d%d" % i, "rbw": MB, "wbw": MB} for i in range(3)]
    w = []
    peers = []
    if s0:
        w.append(["sleep", s0])
    suffix = "_async" if started else "_init"
    for i, (role, c) in enumerate(mem):
        v = "x%d" % i
        pops = None
        if role == "exec":
            w.append(["exec" + suffix, v, c * GF])
        elif role in ("io-read", "io-write"):
            w.append(["io" + suffix, v, "d%d" % i, c * MB, role[3:]])
        elif role == "comm-get":
            pops = [["dput", "mb%d" % i, (c - 0.5) * MB]]
            w.append(["comm_get" + suffix, v, "mb%d" % i])
        elif role == "comm-put":
            pops = [["comm_get_async", "y%d" % i, "mb%d" % i], ["sleep", 8]]
            w.append(["comm_put" + suffix, v, "mb%d" % i, (c - 0.5) * MB])
        elif role == "mess-get":
            pops = [["sleep", s0 + c], ["mess_put_async", "y%d" % i, "q%d" % i]]
            w.append(["mess_get" + suffix, v, "q%d" % i])
        elif role == "mess-put":
            pops = [["sleep", s0 + c], ["mess_get_async", "y%d" % i, "q%d" % i]]
            w.append(["mess_put" + suffix, v, "q%d" % i])
        peers.append({"name": "p%d" % (i + 1), "host": "h%d" % (i + 1), "ops": pops or []})
    fl = case["fl"]
    if fl in ("wait_for", "wait_for_or_cancel"):
        w.append([fl, "x0", t])
        w.append(["state", "x0"])
        if fl == "wait_for" and started:        # the timeout must not disturb the activity: it still ends at s0+c
            w += [["wait", "x0"], ["state", "x0"]]
    else:
        for i in range(n):
            w.append(["set_push", "S", "x%d" % i])
        w.append(["wait_any_for", "S", t])
        w += [["state", "x%d" % i] for i in range(n)]
        if fl == "wait_any_for2":
            w.append(["wait_any_for", "S", t])
            w += [["state", "x%d" % i] for i in range(n)]
    prog = dict(plat)
    prog["actors"] = [{"name": "w", "host": "h0", "ops": w}] + peers
    return prog


def relation(case):
    cmin = min(c for (_, c) in case["members"])
    return "before" if cmin < case["t"] else ("tie" if cmin == case["t"] else "after")


def case_key(case, what):
    """flavour + activity kinds + started + failure signature: one key per defect, not per grid point"""
    kinds = ",".join(sorted({r.split("-")[0] for (r, _) in case["members"]}))
    return "%s %s %s -> %s" % (case["fl"], kinds, "started" if case.get("started", True) else "unstarted", what)


def summary(r):
    """failure signature without grid coordinates (part of the case key)"""
    import re
    c = r["case"]
    p = r["problems"][0] if r["problems"] else "?"
    if p.startswith("simulation exited"):
        return "simulation aborts (%s)" % p.split("(", 1)[1].rstrip(")")
    m = re.match(r"observed (\w+)@([0-9.]+), allowed (.*)", p)
    if m:
        got, at, exp = m.group(1), float(m.group(2)), re.sub(r"@[0-9.]+", "", m.group(3))
        if got != "timeout" and at == c["s0"]:
            return "returns at the call date without waiting"
        if got == "timeout" and r["rel"] == "tie" and exp == "ok":
            return "timeout although the completion date equals the deadline"
        if got in exp.split("|") and len(r["problems"]) > 1:        # the wait itself is right, something after it is not
            return "%s: %s" % (r["rel"], re.sub(r"@[0-9.]+", "", r["problems"][1]))
        return "%s: observed %s, allowed %s" % (r["rel"], got, exp)
    return re.sub(r"@[0-9.]+", "", p)


def pending_states(o):
    """the statement says nothing about INITED / STARTING / STARTED after a timeout: all three mean 'not over yet'"""
    return tuple((n, tuple(tuple((e, "PENDING" if e == "state" and v in ("INITED", "STARTING", "STARTED") else v, d)
                                 for (e, v, d) in log) for log in incs)) for (n, incs) in o)


def judge(case, prog, obs):
    res = {"case": case, "rel": relation(case), "ok": True, "problems": [], "outcome": None, "error": None}
    if obs["status"] != 0:
        res["ok"] = False
        res["problems"].append("simulation exited with status %s (%s)" % (obs["status"], obs.get("crash") or "no message"))
        return res
    clk = 0.0
    for (ev, val, c) in obs["sig"]:
        if ev == "time_advance" and float(val) < 0:
            res["problems"].append("negative time advance %s" % val)
        if c < clk:
            res["problems"].append("clock went backwards in the signal log")
        clk = c
    try:
        allowed, ref = timed_ref.allowed(prog)
    except timed_ref.RefError as e:
        res["error"] = "reference: %s" % e
        return res
    real = pending_states(timed_ref.normalize(obs))
    allowed = {pending_states(o) for o in allowed}
    wlog = dict(real)["w"][0]
    fl = "wait_any_for" if case["fl"].startswith("wait_any") else case["fl"]
    rec = next(((e, v, d) for (e, v, d) in wlog if e == fl), None)
    res["outcome"] = "%s@%s" % (rec[1], float(rec[2])) if rec else "no-record"
    res["ref_size"] = len(allowed)
    if not timed_ref.member(real, allowed):
        exp = sorted({"%s@%s" % (r[1], float(r[2])) for o in allowed for r in dict(o)["w"][0] if r[0] == fl})
        res["problems"].append("observed %s, allowed %s" % (res["outcome"], "|".join(exp[:4])))
        res["problems"].append(timed_ref.first_diff(real, allowed))
        res["expected"] = [timed_ref.show(o) for o in list(allowed)[:2]]
        res["observed"] = timed_ref.show(real)
    # closed form, independent of timed_ref
    s0, t = F(case["s0"]), F(case["t"])
    cs = [F(c) for (_, c) in case["members"]]
    cmin = min(cs)
    if cmin < t:
        want = {("x%d" % i if fl == "wait_any_for" else "ok", s0 + cmin) for i, c in enumerate(cs) if c == cmin}
    elif cmin > t:
        want = {("timeout", s0 + t)}
    elif fl == "wait_any_for":
        want = {("x%d" % i, s0 + t) for i, c in enumerate(cs) if c == cmin} | {("timeout", s0 + t)}
    else:
        want = {("ok", s0 + t)}
    okcf = rec is not None and (rec[1], rec[2]) in want
    inref = timed_ref.member(real, allowed)
    if okcf != inref and not (inref and not okcf and False):
        # the two oracles disagree on the wait record itself only if the reference is wrong (or the closed form is)
        if inref and not okcf:
            res["error"] = "oracles disagree: reference accepts %s, closed form wants %s" % (res["outcome"], sorted(
                (v, float(d)) for (v, d) in want))
    res["ok"] = not res["problems"]
    return res


def cases_for(n, roles, s0s, fls):
    out = []
    for fl in fls:
        for mem in itertools.product(itertools.product(roles, (1, 2, 3)), repeat=n):
            for t in (1, 2, 3):
                for s0 in s0s:
                    if fl in ("wait_for", "wait_for_or_cancel"):
                        for started in (True, False):
                            out.append({"fl": fl, "members": [list(m) for m in mem], "t": t, "s0": s0, "started": started})
                    else:
                        out.append({"fl": fl, "members": [list(m) for m in mem], "t": t, "s0": s0, "started": True})
    return out


def bounds(tier):
    b = [("wait_for+wait_for_or_cancel: 7 roles x c x t x started/unstarted x s0",
          cases_for(1, ROLES, (0, 0.5), ("wait_for", "wait_for_or_cancel"))),
         ("wait_any_for 1 member", cases_for(1, ROLES, (0, 0.5), ("wait_any_for",))),
         ("wait_any_for 2 members, called at 0", cases_for(2, ROLES, (0,), ("wait_any_for",)))]
    b[0][1].sort(key=lambda c: (c["started"], c["members"][0][0], c["fl"]))      # neighbours share a pack
    if tier != "quick":
        b.append(("wait_any_for 2 members, called at 0.5", cases_for(2, ROLES, (0.5,), ("wait_any_for",))))
        b.append(("wait_any_for twice, 2 members", cases_for(2, ROLES, (0,), ("wait_any_for2",))))
        b.append(("wait_any_for 3 members (roles exec, comm-get, mess-get)",
                  cases_for(3, ["exec", "comm-get", "mess-get"], (0,), ("wait_any_for",))))
        b.append(("wait_any_for 3 members (all 7 roles)", cases_for(3, ROLES, (0,), ("wait_any_for",))))
    return b


def run(ctx):
    binary = simlib.build()
    violations, errors = [], []
    evaluations = 0
    done_bounds, per_bound = [], {}
    rel_count = {"before": 0, "tie": 0, "after": 0}
    tie_any = {"timeout": 0, "member": 0}
    outcomes = set()
    nontrivial = set()
    samples = []
    exhaustive, rate = True, None
    for name, cases in bounds(ctx.tier):
        if ctx.deadline.left() < 20 and done_bounds:
            exhaustive = False
            break
        if not ctx.quick and rate and len(cases) > 1500 and len(cases) * len(cases[0]["members"]) / rate * 2.0 > ctx.deadline.left() - 20:      # would not finish
            exhaustive = False
            break
        t_b = __import__("time").time()
        results = simlib.eval_cases_packed(binary, cases, "checks.c12", K=16, tag="c12")
        evaluations += len(results)
        bad = 0
        for r in results:
            c = r["case"]
            rel_count[r["rel"]] += 1
            if r["error"]:
                errors.append((c, r["error"]))
                continue
            outcomes.add((c["fl"], r["rel"], (r["outcome"] or "").split("@")[0].rstrip("012")))
            if r["rel"] == "tie":
                nontrivial.add(json.dumps(c, sort_keys=True))
                if c["fl"].startswith("wait_any"):
                    tie_any["timeout" if (r["outcome"] or "").startswith("timeout") else "member"] += 1
            if not r["ok"]:
                bad += 1
                violations.append(r)
        per_bound[name] = {"cases": len(cases), "failed": bad, "t_s": round(ctx.deadline.t0 and (__import__("time").time() - ctx.t0), 1)}
        common.log("C12 %s: %d cases, %d failing, t=%.0fs" % (name, len(cases), bad, __import__("time").time() - ctx.t0))
        done_bounds.append(name)
        if len(cases) >= 300:
            rate = len(cases) * len(cases[0]["members"]) / max(0.5, __import__("time").time() - t_b)      # members per second
        if len(samples) < 4:
            samples.append({"case": cases[len(cases) // 2], "program": build_prog(cases[len(cases) // 2]),
                            "outcome": results[len(cases) // 2]["outcome"]})
    simlib.cleanup("c12")
    if errors:
        common.log("C12: harness error on %d cases, first: %s" % (len(errors), errors[0]))
        raise SystemExit(2)
    # group by key; one representative per key is re-run alone twice (and in its pack if it only fails there)
    import sys
    mod = sys.modules[__name__]
    bykey = {}
    for r in violations:
        bykey.setdefault(case_key(r["case"], summary(r)), []).append(r)
    vio = []
    for key, rs in sorted(bykey.items()):
        c = simlib.confirm(binary, mod, rs[0], lambda r: (tuple(r["problems"]), r["error"]))
        if c is None:
            common.log("C12: violation did not reproduce identically (harness bug): %s" % key)
            raise SystemExit(2)
        r2 = c[1]
        vio.append(common.Violation(key, "%s (%d grid points with this signature%s)" % (
            "; ".join(r2["problems"]), len(rs), ", only inside its pack" if c[0] == "pack" else ""),
            {"case": r2["case"], "pack": r2.get("packed_with") if c[0] == "pack" else None,
             "program": build_prog(r2["case"]), "observed": r2.get("observed"), "expected_one_of": r2.get("expected"),
             "all_cases_with_this_key": [x["case"] for x in rs][:40]}))
    coverage = {
        "evaluations": evaluations,
        "distinct_nontrivial": len(nontrivial),
        "rule": "one real simulation per grid point (role(s) x c x t x flavour x started x s0); non-trivial = distinct "
                "grid points where the earliest natural completion date is bit-equal to the deadline (the tie)",
        "samples": samples,
        "exhaustive": exhaustive,
        "bounds_completed": done_bounds,
        "per_bound": per_bound,
        "relation_counts": rel_count,
        "wait_any_for_tie_outcomes": tie_any,
        "distinct_outcomes": sorted("/".join(o) for o in outcomes),
        "violating_cases": len(violations),
    }
    if len(nontrivial) < 2:
        common.log("C12: vacuous run")
        raise SystemExit(2)
    common.finish(ctx, "exploration", coverage,
                  ["all durations dyadic (speeds 2^30 flop/s, 2^20 B/s, latency 0.5): dates are exact doubles",
                   "network/model:CM02, TCP-gamma 0, no cross-traffic, one link per communication, one disk per I/O, 4 cores",
                   "lib/timed_ref.py is the oracle; a closed-form oracle cross-checks it on every case",
                   "wait_any_for exact tie accepted both ways (statement leaves it open)"],
                  vio, engine="sim")


def replay(ctx, rf):
    binary = simlib.build()
    import sys
    case = rf["case"]["case"]
    prog = build_prog(case)
    obs = simlib.run_one(binary, prog)
    if rf["case"].get("pack"):
        r = simlib.judge_in_pack(binary, sys.modules[__name__], case, rf["case"]["pack"])
    else:
        r = judge(case, prog, obs)
    print(json.dumps({"case": case, "outcome": r["outcome"], "problems": r["problems"], "error": r["error"]}, indent=1))
    print(obs["raw"])
    return 0 if r["ok"] and not r["error"] else 1
