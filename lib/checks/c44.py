"""C44 — unfolding set algebra of UDPOR (engine E9 mcds, harness/mcds/c44_unfold.cpp).

Exhaustive bounded enumeration, bound by bound (number of events n):
  iter    LazyPowerset / LazyKSubsets over containers of 0..n elements, variable_for_loop over every tuple of 1..k
          collections (sizes 0..3, aliasing allowed), EventSet algebra on every pair of subsets;
  struct  every DAG of immediate causes on n events (cause set of event i = any subset of {0..i-1}) x all 2^n subsets
          (x all 2^n second subsets where a method takes two): History, EventSet, UnfoldingEvent methods that do not look
          at the labels, topological orderings, maximal_subsets_iterator (all size bounds, all filters on the full set);
  label   DAGs x labellings with real mc::Transition objects (actors 1..3 up to renaming x {async-lock, unlock, wait on one
          mutex, random}) that form an event structure (every local configuration conflict free) x all subsets:
          conflicts, is_conflict_free, is_valid_configuration, Configuration (ctor, add_event, compatibility with events and
          histories, latest events, ...).
The expected values are computed on bit masks by a 100-line reference (transitive closure, maximal elements, inherited
conflict) that never calls the code under test; the dependency of two labels is read from Transition::dispatch_depends."""
import os, sys, json, time, subprocess, concurrent.futures as cf
import common

HARNESS = "c44_unfold"
# bound id, mode, n, extra argv, shards, estimated CPU-seconds (only used to decide whether to start a bound)
PLAN = {
    "quick": [
        ("iter m<=5 k<=3", "iter", 5, ["3"], 1, 1),
        ("struct n=1 orders=0123", "struct", 1, ["0123"], 1, 1), ("struct n=2 orders=0123", "struct", 2, ["0123"], 1, 1),
        ("struct n=3 orders=0123", "struct", 3, ["0123"], 1, 1), ("struct n=4 orders=0123", "struct", 4, ["0123"], 8, 3),
        ("struct n=5 orders=0123", "struct", 5, ["0123"], 64, 60),
        ("label n=1 all-dags LUWR pairs=all orders=0123", "label", 1, ["LUWR", "all", "2", "0123"], 1, 1),
        ("label n=2 all-dags LUWR pairs=all orders=0123", "label", 2, ["LUWR", "all", "2", "0123"], 1, 1),
        ("label n=3 all-dags LUWR pairs=all orders=0123", "label", 3, ["LUWR", "all", "2", "0123"], 4, 4),
        ("label n=4 all-dags LUWR pairs=all orders=03", "label", 4, ["LUWR", "all", "2", "03"], 64, 55),
        ("label n=5 posets-up-to-iso LUR pairs=antichains orders=0", "label", 5, ["LUR", "iso", "1", "0"], 64, 120),
    ],
    "thorough": [
        ("iter m<=6 k<=4", "iter", 6, ["4"], 1, 5),
        ("struct n=1 orders=0123", "struct", 1, ["0123"], 1, 1), ("struct n=2 orders=0123", "struct", 2, ["0123"], 1, 1),
        ("struct n=3 orders=0123", "struct", 3, ["0123"], 1, 1), ("struct n=4 orders=0123", "struct", 4, ["0123"], 8, 3),
        ("struct n=5 orders=0123", "struct", 5, ["0123"], 64, 60),
        ("label n=1 all-dags LUWR pairs=all orders=0123", "label", 1, ["LUWR", "all", "2", "0123"], 1, 1),
        ("label n=2 all-dags LUWR pairs=all orders=0123", "label", 2, ["LUWR", "all", "2", "0123"], 1, 1),
        ("label n=3 all-dags LUWR pairs=all orders=0123", "label", 3, ["LUWR", "all", "2", "0123"], 4, 4),
        ("label n=4 all-dags LUWR pairs=all orders=03", "label", 4, ["LUWR", "all", "2", "03"], 64, 55),
        ("label n=5 posets-up-to-iso LUWR pairs=antichains orders=03", "label", 5, ["LUWR", "iso", "1", "03"], 128, 800),
        ("struct n=6 orders=0", "struct", 6, ["0"], 256, 1400),
        ("label n=6 posets-up-to-iso LUR pairs=none orders=0", "label", 6, ["LUR", "iso", "0", "0"], 192, 4200),
        ("label n=5 all-posets LUWR pairs=antichains orders=03", "label", 5, ["LUWR", "reduced", "1", "03"], 256, 4300),
        ("struct n=6 orders=3", "struct", 6, ["3"], 256, 1400),
        ("struct n=6 orders=1", "struct", 6, ["1"], 256, 1400),
        ("struct n=6 orders=2", "struct", 6, ["2"], 256, 1400),
    ],
}
ROOT_CAUSE = "misses-conflict-inherited-on-both-sides"   # one defect seen through three methods
ROOT_TOPO = "repeats-events"                              # one defect seen through the orderings and the iterator on them
ROOTS = {ROOT_CAUSE: ("conflict-relation", "UnfoldingEvent::conflicts_with"),
         ROOT_TOPO: ("topological-ordering", "EventSet::get_topological_ordering")}
WHAT = {
    ROOT_CAUSE: "UnfoldingEvent::conflicts_with only looks for an event of [e]\\[e'] dependent with e' itself (or vice "
                "versa): a conflict inherited on both sides (x<e, y<e', x#y, e and e' otherwise independent) is missed, so "
                "conflicts_with / conflicts_with_any / EventSet::is_conflict_free answer 'no conflict' on sets that are not "
                "causally closed",
    ROOT_TOPO: "EventSet::get_topological_ordering pushes an event on its DFS stack once per not-yet-visited parent "
               "(a redundant immediate cause: a<b<p with a also an immediate cause of p) and finalises it every time it is "
               "popped: the event appears several times in the ordering; maximal_subsets_iterator, which walks that "
               "ordering, yields some maximal sets more than once and the Configuration constructor, which fills its "
               "actor->latest-event map along it, ends with an older event of an actor (get_latest_event_of/_action_of)",
    "returns-empty-set": "Configuration::get_minimally_reproducible_events returns the empty set for a non-empty "
                         "configuration (the loop stops on the empty set that maximal_subsets_iterator yields first)",
}


def _run_shard(job):
    binary, mode, n, extra, shard, nshards, kill_at = job
    timeout = kill_at - time.time()
    if timeout <= 0:
        return {"timeout": True}
    if mode == "iter":
        cmd = [binary, "iter", str(n)] + extra
    elif mode == "struct":
        cmd = [binary, "struct", str(n), str(shard), str(nshards)] + extra
    else:
        cmd = [binary, "label", str(n), str(shard), str(nshards)] + extra
    try:
        r = subprocess.run(cmd, stdout=subprocess.PIPE, stderr=subprocess.PIPE, text=True, timeout=timeout)
    except subprocess.TimeoutExpired:
        return {"timeout": True}
    res = {"rc": r.returncode, "crash": None, "sum": None, "err": r.stderr[-800:]}
    for line in r.stdout.splitlines():
        if line.startswith("CRASH "):
            res["crash"] = json.loads(line[6:])
        elif line.startswith("{"):
            res["sum"] = json.loads(line)
    return res


def _one(binary, d, timeout=600):
    """Re-run one unfolding alone; returns (rc, list of disagreement records)."""
    if d.get("kind") == "iter":
        cmd = [binary, "iter", str(d["n"]), str(d["place"]), "verbose"]
    else:
        cmd = [binary, "one", str(d["n"]), d["dag"], d["lab"], str(d.get("place", 0))]
    r = subprocess.run(cmd, stdout=subprocess.PIPE, stderr=subprocess.PIPE, text=True, timeout=timeout)
    recs = []
    for line in r.stdout.splitlines():
        if line.startswith("DISAGREE ") or line.startswith("CRASH "):
            recs.append(json.loads(line.split(" ", 1)[1]))
    return r.returncode, recs, r.stdout, r.stderr


def _same(a, b):
    ks = ("kind", "n", "dag", "lab", "place", "method", "class", "subset", "arg", "impl", "ref")
    return all(a.get(k) == b.get(k) for k in ks)


def _order(d, bound_index):
    return (d["n"], bound_index, d["ord"][0], d["ord"][1], d["place"])


def _group(d):
    return d["class"] if d["class"] in ROOTS else d["method"] + (" " + d["class"] if d["class"] else "")


def _key(group, d):
    if d.get("kind") == "iter":
        return "C44 %s size=%d arg=%d (containers of 0..%d elements, <=%d nested loops)" % (group, d["subset"], d["arg"], d["n"], d["place"])
    base = "n=%d causes=%s labels=%s order=%d" % (d["n"], d["dag"], d["lab"], d["place"])
    if group == ROOT_CAUSE:
        ev = [i for i in range(d["n"]) if (d["subset"] | d["arg"]) >> i & 1]
        return "C44 conflict-relation %s %s events=%s" % (group, base, ",".join(map(str, ev)))
    if group == ROOT_TOPO:
        return "C44 topological-ordering %s %s subset=%d" % (group, base, d["subset"])
    return "C44 %s %s subset=%d arg=%d" % (group, base, d["subset"], d["arg"])


def _describe(d):
    n = d["n"]
    causes = d["dag"].split(",")
    evs = []
    for i in range(n):
        c = int(causes[i])
        cs = [str(j) for j in range(i) if c >> j & 1]
        lab = d["lab"][2 * i:2 * i + 2] if d["lab"] != "-" else ""
        evs.append("e%d%s<-{%s}" % (i, ":" + lab if lab else "", ",".join(cs)))
    return " ".join(evs)


def run(ctx):
    binary = common.build_harness(HARNESS, ["mcds/c44_unfold.cpp"])
    plan = PLAN[ctx.tier]
    bounds_done, bounds_skipped = [], []
    groups = {}       # group -> {"count", "first" (record), "order"}
    tot = dict(evaluations=0, nontrivial=0, subset_evals=0, calls=0, struct_dags=0, label_classes_run=0,
               labellings_represented=0, wellformed_labellings=0, conflict_pairs=0, conflict_pairs_inherited_both_sides=0,
               k0_none=0, k0_empty=0)
    samples, exhaustive, per_bound = [], True, []
    eff = max(1.0, common.NCPU * 0.5)   # CPU-seconds of harness work obtained per wall second: measured as the run goes
    cpu_done = wall_done = 0.0
    for bi, (bid, mode, n, extra, nshards, est) in enumerate(plan):
        if wall_done > 5:
            eff = max(0.5, min(common.NCPU, cpu_done / wall_done))
        if ctx.deadline.over() or ctx.deadline.left() < 1.15 * est / eff:
            exhaustive = False
            bounds_skipped.append(bid)
            common.log("C44: bound '%s' not started (%.0fs left, needs ~%.0fs at the %.1f cores measured so far)" % (bid, ctx.deadline.left(), est / eff, eff))
            continue
        t0 = time.time()
        order = list(range(nshards))
        if ctx.seed:
            import random
            random.Random(ctx.seed).shuffle(order)
        kill_at = time.time() + max(20, ctx.deadline.left() + 20)    # a started bound may overrun a little, never long
        jobs = [(binary, mode, n, extra, s, nshards, kill_at) for s in order]
        with cf.ThreadPoolExecutor(max_workers=common.NCPU) as ex:
            res = list(ex.map(_run_shard, jobs))
        if any(r.get("timeout") for r in res):
            exhaustive = False
            bounds_skipped.append(bid + " (started, not completed: discarded)")
            common.log("C44: bound '%s' did not complete before the deadline" % bid)
            continue
        ok = True
        b = dict(bound=bid, cases=0, nontrivial=0, subset_evals=0, calls=0, disagreements=0)
        for r in res:
            if r["crash"] is not None:
                d = r["crash"]
                g = groups.setdefault("crash " + d["class"], {"count": 0, "first": None, "order": None})
                g["count"] += 1
                if g["first"] is None or _order(d, bi) < g["order"]:
                    g["first"], g["order"] = d, _order(d, bi)
                continue
            if r["sum"] is None or r["rc"] != 0:
                common.log("C44: a shard of '%s' died without a record (rc=%s): %s" % (bid, r["rc"], r["err"]))
                ok = False
                continue
            s = r["sum"]
            cases = s["dags"] if mode == "struct" else s["classes_run"] if mode == "label" else 1
            b["cases"] += cases
            b["nontrivial"] += s["nontrivial"]
            b["subset_evals"] += s["subset_evals"]
            b["calls"] += s["calls"]
            b["disagreements"] += s["violations"]
            if mode == "struct":
                tot["struct_dags"] += s["dags"]
            if mode == "label":
                tot["label_classes_run"] += s["classes_run"]
                tot["conflict_pairs"] += s["conflict_pairs"]
                tot["conflict_pairs_inherited_both_sides"] += s["conflict_pairs_inherited_both_sides"]
            tot["k0_none"] += s["k0_none"]
            tot["k0_empty"] += s["k0_empty"]
            for c, v in s["classes"].items():
                d = v["first"]
                g = groups.setdefault(_group(d), {"count": 0, "first": None, "order": None})
                g["count"] += v["count"]
                # the representative of a root-cause group is its first conflicts_with record when there is one
                o = _order(d, bi) + ((0,) if d["class"] in ROOTS and d["method"] == ROOTS[d["class"]][1] else (1,))
                if g["first"] is None or o < g["order"]:
                    g["first"], g["order"] = d, o
            for x in s["samples"]:
                if len(samples) < 12 and x not in samples:
                    samples.append(x)
        if mode == "label":   # identical in every shard (each shard enumerates the whole bound, runs its share)
            s0 = next(r["sum"] for r in res if r.get("sum"))
            tot["labellings_represented"] += s0["unfoldings"]
            tot["wellformed_labellings"] += s0["wellformed_labellings"]
            b["dags"], b["labellings"], b["event_structures"], b["classes"] = s0["dags"], s0["unfoldings"], s0["wellformed_labellings"], s0["wellformed"]
        if not ok:
            common.log("C44: harness failure in bound '%s'" % bid)
            sys.exit(2)
        b["wall_s"] = round(time.time() - t0, 1)
        if est >= 20:
            cpu_done += est
            wall_done += time.time() - t0
        per_bound.append(b)
        tot["evaluations"] += b["cases"]
        tot["nontrivial"] += b["nontrivial"] if mode != "iter" else 0
        tot["subset_evals"] += b["subset_evals"]
        tot["calls"] += b["calls"]
        bounds_done.append(bid)
        common.log("C44: bound '%s' done: %d cases, %d calls, %d disagreements [%.1fs]" % (bid, b["cases"], b["calls"], b["disagreements"], time.time() - t0))

    # ---- violations: one per group (method + kind of disagreement; one root cause = one group), keyed by its first case
    violations = []
    for gname, g in sorted(groups.items()):
        d = g["first"]
        for attempt in (1, 2):
            rc, recs, out, err = _one(binary, d)
            if not any(_same(x, d) for x in recs):
                common.log("C44: disagreement %s did not reproduce alone (attempt %d, rc=%s): harness bug" % (_key(gname, d), attempt, rc))
                common.log(out[-1500:] + err[-800:])
                sys.exit(2)
        cls = d["class"]
        what = WHAT.get(cls, "")
        if d.get("kind") == "iter":
            what = "%s on a container/size code %d with k=%d yielded %d tuples/sets where brute force gives %d (or yields wrong ones); %d disagreement(s) of this kind in the run" % (
                d["method"], d["subset"], d["arg"], d["impl"], d["ref"], g["count"])
        else:
            what = "%s%s: %s(subset=%s, arg=%s) returned %s, set-theoretic definition gives %s on %s (insertion-order variant %d); %d disagreement(s) of this kind in the run" % (
                what + " — " if what else "", gname, d["method"], bin(d["subset"]), bin(d["arg"]), d["impl"], d["ref"], _describe(d), d["place"], g["count"])
        violations.append(common.Violation(_key(gname, d), what, {"kind": d.get("kind", "unfolding"), "n": d["n"], "dag": d["dag"], "lab": d["lab"], "place": d["place"], "record": d}))

    if tot["nontrivial"] < 2:
        common.log("C44: vacuous run (%d non-trivial cases)" % tot["nontrivial"])
        sys.exit(2)
    coverage = {
        "evaluations": tot["evaluations"],
        "distinct_nontrivial": tot["nontrivial"],
        "rule": "a case = one unfolding run through the implementation with all its 2^n subsets: (struct) one DAG of immediate "
                "causes x one of the insertion-order variants named in the bound, non-trivial when causality is not just the immediate-cause relation (a transitive or a redundant "
                "edge) and two events are incomparable; (label) one DAG x one class of labellings (same actors and same "
                "dispatch_depends matrix; every labelling of the bound belongs to exactly one class) that is an event structure, "
                "non-trivial when two events are in conflict (a causally closed subset is not a configuration) and two events "
                "are concurrent; cases are distinct by construction (odometer over DAG codes x classes); iter cases are "
                "not counted as non-trivial",
        "samples": samples,
        "exhaustive": exhaustive,
        "bounds_completed": bounds_done,
        "bounds_not_completed": bounds_skipped,
        "per_bound": per_bound,
        "subsets_evaluated": tot["subset_evals"],
        "method_calls_compared": tot["calls"],
        "struct_dags": tot["struct_dags"],
        "label_classes_run": tot["label_classes_run"],
        "labelled_unfoldings_enumerated": tot["labellings_represented"],
        "labelled_event_structures_represented": tot["wellformed_labellings"],
        "conflict_pairs": tot["conflict_pairs"],
        "conflict_pairs_inherited_on_both_sides_only": tot["conflict_pairs_inherited_both_sides"],
        "open_outcome_LazyKSubsets_k0": {"yields_nothing": tot["k0_none"], "yields_empty_set_once": tot["k0_empty"]},
        "disagreement_groups": {k: v["count"] for k, v in sorted(groups.items())},
    }
    assumptions = [
        "dependency of two labels is taken from Transition::dispatch_depends of the real MutexTransition/RandomTransition objects (checked symmetric); the reference conflict relation is built on it",
        "labellings with the same actor of every event and the same pairwise dispatch_depends matrix are run once (the code under test reads a transition only through aid_ and dispatch_depends; UnfoldingEvent::operator==, which also reads type_, is not exercised)",
        "label bounds named 'all-posets' use the transitively reduced DAG of each partial order (conflicts only depend on the order; redundant immediate causes are covered by the struct bounds); 'posets-up-to-iso' keeps one numbering of the events per isomorphism class of partial orders, every labelling of it is enumerated",
        "labelled DAGs in which some local configuration [e] contains a conflict are not event structures and are skipped (counted in per_bound: labellings vs event_structures)",
        "LazyKSubsets with k=0 and variable_for_loop over zero collections are left open (documented degenerate cases); maximal_subsets_iterator with maximum_subset_size=0 is outside its domain (xbt_assert)",
    ]
    common.finish(ctx, "exploration", coverage, assumptions, violations, engine="mcds")


def replay(ctx, case):
    binary = common.build_harness(HARNESS, ["mcds/c44_unfold.cpp"])
    d = case["case"]
    rc, recs, out, err = _one(binary, d)
    print("C44 replay: n=%d causes=%s labels=%s insertion-order variant=%d  (%s)" % (d["n"], d["dag"], d["lab"], d.get("place", 0), _describe(d)))
    for x in recs:
        print("  %s%s: subset=%s arg=%s implementation=%s reference=%s" % (
            x["method"], " [" + x["class"] + "]" if x["class"] else "", bin(x["subset"]), bin(x["arg"]), x["impl"], x["ref"]))
    want = d.get("record")
    if want is not None:
        print("  recorded disagreement %s" % ("reproduced" if any(_same(x, want) for x in recs) else "NOT reproduced"))
    print("C44 replay: %d disagreement(s)" % len(recs))
    return 1 if recs else 0
