"""C15 — sharing solvers never exceed capacities (maxmin, bmf, fairbottleneck).  Engine E5 lmmx, level model_checking.

Every history of modifications up to a length bound is applied to a real lmm::System (each solver, with and without selective
update); after EVERY solve the solved system is copied into a plain description and judged by oracle.hpp::check_c15
(no SimGrid code): sum w*rate <= C on shared constraints, max w*rate <= C on fatpipes, rate 0 for disabled/staged variables,
0 <= rate <= bound for every variable that consumes something."""
import common, lmm_common as L

PROP = "C15"
MODE = "c15"
SOLVERS = ("maxmin", "bmf", "fairbottleneck")
RICH = dict(pnew=(0, 1, 2), wnew=(0.5, 1, 2), wx=(0.5, 1), bv=(-1, 0.5, 1.5), pset=(0, 1, 2), bc=(1, 2, 3))
# pre-loaded systems (then explored further): three variables with different penalties / weights / a bound over 2 and 3
# constraints, and a zero-weight element
PRE2 = "N:1:0:1;X:0:1:0.5;N:2:0:0.5;N:1:1:2;VB:2:0.5"
PRE3 = "N:1:0:1;X:0:1:1;N:2:1:0.5;X:1:2:1;N:1:2:2;X:2:0:0.5"


def shards(quick, mode=MODE, solvers=SOLVERS):
    out = []
    def add(fam, prio, base, **kw):
        out.append(dict(L.shard(mode, **dict(RICH, **kw)), fam=fam, prio=prio, base=base))
    b = 3 if quick else 4
    for solver in solvers:
        for sel in (1, 0):
            for pol in ("SS", "SF", "FS", "FF"):
                add("2 constraints, empty start", 2, b, solver=solver, sel=sel, nc=2, pol=pol, lim=(-1, -1), V=3)
                add("2 constraints, pre-loaded with 3 variables", 1, b, solver=solver, sel=sel, nc=2, pol=pol, lim=(-1, -1),
                    V=3, prefix=PRE2)
            for pol in (("SSS", "SFS") if quick else ("SSS", "SFS", "FSF", "SSF", "FFF")):
                add("3 constraints, pre-loaded with 3 variables", 3, b - 1, solver=solver, sel=sel, nc=3, pol=pol,
                    lim=(-1, -1, -1), V=3, prefix=PRE3)
            # concurrency limits (staged variables must get rate 0) and zero weights, small value alphabet
            for pol in ("SS", "SF"):
                add("2 constraints with concurrency limits, weights {0,1}", 4, b, solver=solver, sel=sel, nc=2, pol=pol,
                    lim=(1, 2), V=3, pnew=(0, 1), wnew=(0, 1), wx=(0, 1), bv=(-1, 0.5), pset=(0, 1), bc=(1, 2))
    return out


def run(ctx):
    shs = shards(ctx.quick)
    shs, res, stages, complete = L.explore(ctx, shs, increments=1 if ctx.quick else 2, reserve=60 if ctx.quick else 60)
    if any(r is None for r in res):
        common.log("C15: not even the first bound completed")
        raise SystemExit(2)
    classes, unjudged, stats = L.collect(PROP, shs, res)
    viols = L.confirm(PROP, classes)
    nontrivial = min(stats.get("solves_with_a_saturated_shared_constraint", 0), stats.get("solves_with_a_saturated_fatpipe", 0),
                     stats.get("solves_with_a_variable_at_its_bound", 0), stats.get("solves_with_disabled_variables", 0))
    if nontrivial < 2:
        common.log("C15: vacuous run (%s)" % stats)
        raise SystemExit(2)
    samples = [{"shard": L.shard_name(sh), "history": h} for sh, r in list(zip(shs, res))[:6] for h in r["samples"][-2:]]
    cov = {
        "states": sum(r["states"] for r in res),
        "transitions": sum(r["transitions"] for r in res),
        "reference_evaluations": sum(r["oracle_evaluations"] for r in res),
        "traces_validated_against_impl": sum(r["transitions"] for r in res),
        "samples": samples,
        "exhaustive": bool(complete),
        "history_length_completed_per_family": L.depths_by_family(shs, res),
        "shards": len(shs),
        "stages": stages,
        "solves_judged": stats.get("solves_judged", 0),
        "solves_with_a_saturated_shared_constraint": stats.get("solves_with_a_saturated_shared_constraint", 0),
        "solves_with_a_saturated_fatpipe": stats.get("solves_with_a_saturated_fatpipe", 0),
        "solves_with_a_variable_at_its_bound": stats.get("solves_with_a_variable_at_its_bound", 0),
        "solves_with_disabled_variables": stats.get("solves_with_disabled_variables", 0),
        "solves_with_a_constraint_shared_by_several_variables": stats.get("solves_with_a_constraint_shared_by_several_variables", 0),
        "bmf_explicit_errors": stats.get("bmf_explicit_errors", 0),
        "violating_transitions": {k: c["count"] for k, c in classes.items()},
        "unjudged_outcomes": L.note_unjudged(unjudged),
    }
    assumptions = [
        "values: penalties {0,1,2}, weights {0.5,1,2} (and {0,1} on the shards with limits), variable bounds {-1,0.5,1.5}, "
        "constraint bounds {1,2,3}; 2-3 constraints SHARED/FATPIPE; 3 variable slots; no sharing callback (capacity = bound)",
        "tolerance: relative 1e-5 (precision/work-amount default) on every comparison",
        "a variable that consumes nothing (no element of positive weight) is not judged: the statement does not constrain it",
        "a bmf solve that ends with the solver's explicit error, and any solve that aborts on a kernel assertion or does not "
        "terminate, produces no rates: counted (bmf_explicit_errors / unjudged_outcomes), not judged by this property",
        "same exploration machinery, fingerprint and digest as C17 (see there)",
    ]
    common.finish(ctx, "model_checking", cov, assumptions, viols, engine=L.ENGINE)


def replay(ctx, case):
    return L.replay(ctx, case)
