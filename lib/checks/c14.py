"""C14 Real runs conform to the reference interleaving semantics: every synchronisation-only program is run for real
(normal mode, single-simcall code paths, Engine::run) under the raw, boost and thread context factories; its final state
must be one of the terminal states the reference semantics can reach, a deadlock may only be reported in a reachable
deadlock configuration, and never when the reference has none."""
import os, time, subprocess, shutil
import common, vxlib, rs, smc, synccheck, mcprogs

FACTORIES = ["raw", "boost", "thread"]

def bounds(ctx):
    f = mcprogs.family
    import c08
    b = [("mutex", f("c04", ["plain-A2K3", "rec-A2K3"])), ("sem", f("c05", ["c0-A2K2-acqt", "c1-A3K2"])), ("condvar", f("c06", ["A2K2", "A3K1"])),
         ("barrier", f("c07", ["n2-A1to4", "n3-A1to4"])), ("mbox", c08.gen(("put", "get", "det"), 1, 2, 2)), ("mbox3", c08.gen(("put", "get"), 1, 3, 2, 2))]
    if not ctx.quick:
        b += [("mutex3", f("c04", ["plain-A3K2", "rec-A3K2"])), ("sem2", f("c05", ["c0-A3K2", "c2-A3K2", "c0-A2K3"])), ("condvar3", f("c06", ["A3K2-nofor", "A3K2"])),
              ("barrier4", f("c07", ["n4-A1to4", "n1-A1to3", "two-2-2-A3"])), ("mbox-perm", f("c08", ["perm-A2K2", "twobox-A2K2", "filter-A2K2"])), ("mutex4", f("c04", ["plain-A2K4"]))]
    return b

LOCAL_READS = ("cap", "owner")   # unsynchronised reads of kernel state from user code: not synchronisation operations

def strip(prog):
    p = dict(prog)
    p["actors"] = [[op for op in a if op[0] not in LOCAL_READS] for a in prog["actors"]]
    p["actors"] = [a for a in p["actors"] if a]
    return p

def relocks(prog):
    """an actor may lock a non-recursive mutex it (possibly) already holds: undefined behaviour, outside the property"""
    rec = prog.get("mutex", [])
    for a in prog["actors"]:
        bal = {}
        for op in a:
            if op[0] == "cwait" or op[0] == "cwaitfor":
                continue
            if op[0] in ("lock", "trylock") and not rec[op[1]]:
                if op[0] == "lock" and bal.get(op[1], 0) > 0:
                    return True
                bal[op[1]] = bal.get(op[1], 0) + 1
            elif op[0] == "unlock" and not rec[op[1]]:
                bal[op[1]] = max(0, bal.get(op[1], 0) - 1)
    return False

def nrm(c):
    return smc.norm(c).replace(":b1", ":b0").replace(",b1", ",b0")   # which waiter gets the 'serial' return value is not part of the property

def _job(item):
    pid, prog, idx, pfile, binary = item
    p2 = dict(prog); p2["normal_mode"] = True
    ref = rs.explore(p2)
    terms = set(nrm(ref["states"][t][0]) for t in ref["terminals"])
    dls = set(c for c in terms if rs.is_deadlock(c))
    out = dict(pid=pid, problems=[], outcomes=set(), ref_terminals=len(terms), ref_dl=len(dls))
    for fac in FACTORIES:
        try:
            r = subprocess.run([binary, "run", pfile, str(idx), "--cfg=contexts/factory:" + fac, "--log=root.thres:critical"], stdout=subprocess.PIPE, stderr=subprocess.PIPE, text=True, errors="replace", timeout=60)
        except subprocess.TimeoutExpired:
            out["problems"].append((fac, "hang", "the run did not end within 60 s")); continue
        final = dead = None
        for line in r.stdout.splitlines():
            if line.startswith("FINAL "):
                final = nrm(line[6:].strip())
            elif line.startswith("DEADLOCK ") and dead is None:   # the first report (later ones are emitted while the engine kills the blocked actors)
                dead = nrm(line[9:].strip())
        if dead is not None:
            out["outcomes"].add("D" + dead)
            if not dls:
                out["problems"].append((fac, "spurious-deadlock", "a deadlock is reported but the reference has no reachable deadlock; state %s" % dead))
            elif dead not in dls:
                out["problems"].append((fac, "deadlock-in-unreachable-state", "the blocked configuration %s is not a reachable deadlock of the reference" % dead))
        elif final is not None:
            out["outcomes"].add(final)
            if final not in terms:
                out["problems"].append((fac, "unreachable-final-state", "final state %s is not reachable in the reference semantics (%d terminal states)" % (final, len(terms))))
            elif final in dls:
                out["problems"].append((fac, "missed-deadlock", "the run ended in the deadlock configuration %s without reporting a deadlock" % final))
        else:
            out["problems"].append((fac, "crash", "no final state printed (rc=%s): %s" % (r.returncode, (r.stderr or r.stdout)[-300:].replace("\n", " / "))))
    return out

def run(ctx):
    binary = vxlib.vx_binary(); d = common.tmpdir("c14")
    tot = dict(programs=0, runs=0, ref_states=0, nontrivial=0, deadlocks_reported=0)
    completed, violations, samples = [], {}, []
    exhaustive = True
    for name, gen in bounds(ctx):
        if ctx.deadline.left() < 15:
            exhaustive = False; break
        t0 = time.time()
        seenp, progs = set(), []
        for i, p in enumerate(gen()):
            p = strip(p)
            k = synccheck.compact(p)
            if len(p["actors"]) >= 2 and k not in seenp and not relocks(p):
                seenp.add(k); progs.append(("%s-%d" % (name, i), p))
        pfile = os.path.join(d, name + ".txt"); open(pfile, "w").write("".join(vxlib.prog_text(pid, p) for pid, p in progs))
        jobs = [(pid, p, i, pfile, binary) for i, (pid, p) in enumerate(progs)]
        done = 0
        for c in range(0, len(jobs), 256):
            if ctx.deadline.left() < 10:
                exhaustive = False; break
            for res in common.pmap(_job, jobs[c:c + 256], chunksize=4):
                p = dict(progs)[res["pid"]]
                done += 1; tot["programs"] += 1; tot["runs"] += len(FACTORIES); tot["ref_states"] += res["ref_terminals"]
                if res["ref_terminals"] >= 2 or res["ref_dl"]:
                    tot["nontrivial"] += 1
                tot["deadlocks_reported"] += sum(1 for o in res["outcomes"] if o.startswith("D"))
                for fac, kind, what in res["problems"]:
                    key = "C14 %s factory=%s uses=%s" % (kind, fac, mcprogs.features(p))
                    violations.setdefault(key, common.Violation(key, what + " -- program: " + synccheck.compact(p), dict(program=p, kind=kind, factory=fac)))
        if len(samples) < 4 and progs:
            samples.append(dict(bound=name, program=synccheck.compact(progs[len(progs) // 2][1])))
        completed.append(dict(bound=name, programs=done, of=len(progs), wall_s=round(time.time() - t0, 1)))
        common.log("C14 bound %s: %d/%d programs %.0fs violations %d" % (name, done, len(progs), time.time() - t0, len(violations)))
        if done < len(progs):
            exhaustive = False
    vs = []
    for v in violations.values():
        pf = os.path.join(d, "c.txt"); open(pf, "w").write(vxlib.prog_text("x", v.case["program"]))
        a = [_job(("x", v.case["program"], 0, pf, binary)) for _ in range(2)]
        ks = [sorted((f, k) for f, k, _ in x["problems"]) for x in a]
        if ks[0] != ks[1] or (v.case["factory"], v.case["kind"]) not in ks[0]:
            common.log("C14: a real run did not repeat identically on %s: %s" % (v.key, ks)); raise SystemExit(2)
        vs.append(v)
    shutil.rmtree(d, ignore_errors=True)
    if tot["programs"] < 2 or tot["nontrivial"] < 2:
        common.log("vacuous run"); raise SystemExit(2)
    cov = dict(states=tot["ref_states"], transitions=tot["runs"], traces_validated_against_impl=tot["runs"], programs=tot["programs"], evaluations=tot["runs"],
               distinct_nontrivial=tot["nontrivial"], deadlock_reports_seen=tot["deadlocks_reported"],
               rule="every program of the bound x 3 context factories = one real simulation; its final (or deadlocked) state must belong to the terminal (deadlock) states of the exhaustive reference exploration; "
                    "non-trivial = the reference has >=2 terminal states or a deadlock", bounds_completed=completed, samples=samples, exhaustive=exhaustive)
    common.finish(ctx, "model_checking", cov, ["the reference explores every interleaving (lib/rs.py, bound to the kernel by C04-C09); timed waits (wait_for, acquire_timeout) may time out or not in the reference",
                  "synchronisation-only alphabet: asynchronous test/wait_any are excluded because real communications take simulated time"], vs, engine="E4-lite (vx run) + E2 rs")

def replay(ctx, case):
    c = case["case"]; binary = vxlib.vx_binary(); d = common.tmpdir("c14r")
    pf = os.path.join(d, "p.txt"); open(pf, "w").write(vxlib.prog_text("x", c["program"]))
    r = _job(("x", c["program"], 0, pf, binary))
    print("program:", synccheck.compact(c["program"])); print("reference terminal states:", r["ref_terminals"], "of which deadlocks:", r["ref_dl"]); print("observed:", sorted(r["outcomes"]))
    for p in r["problems"]:
        print("PROBLEM", p)
    return 1 if r["problems"] else 0
