"""C03 — simulated time is monotone and events happen exactly at their date (engine E4 `sim` + lib/timed_ref.py).

Programs: odometer over A actors x <=K symbols per actor x the alphabet below (canonical forms only), every program run
on the real simulator.  Symbols (each expands to one or more interpreter ops; all durations dyadic except the
deliberately sub-precision 4e-10):
  s0 sleep 0 | se sleep 4e-10 | s1 sleep 1 | s2 sleep 2 | e0 exec of 0 flop | e1 exec of 1 s
  W  exec_async(2 s); wait_for(1) [times out at +1]; wait [ends at +2]; start/finish times
  P  put on mb0 (1 s transfer: latency 0.5 + 0.5 MiB at 1 MiB/s) | G get on mb0
  T  kernel timer at now+1 | K1 / K2  set_kill_time(self, 1 / 2)
Oracle on every run: (1) on_time_advance deltas >= 0 and clocks never decrease (signal log and every actor log);
(2) sleep_for(d) returns exactly d later (d = 0 or d >= precision) or within [d, 1e-9] (sub-precision clamp);
(3) activity start >= creation, finish >= start, finish <= date the wait returned; (4) every timer fires exactly once,
at its date; (5) the complete observation (incl. kill-time deaths, timeouts, comm completions) is a member of
timed_ref.allowed(program) — exact dates, tolerance 1e-8 only for programs containing the sub-precision sleep.
"""
import json, sys
from fractions import Fraction as F
import common, simlib, timed_ref, progs

MB, GF = 2.0 ** 20, 2.0 ** 30
SYM = {
    "s0": [("sleep", 0)], "se": [("sleep", 4e-10)], "s1": [("sleep", 1)], "s2": [("sleep", 2)],
    "e0": [("exec", 0)], "e1": [("exec", GF)],
    "W": [("exec_async", "x@", 2 * GF), ("wait_for", "x@", 1), ("wait", "x@"), ("times", "x@")],
    "P": [("put", "mb0", 0.5 * MB)], "G": [("get", "mb0")],
    "T": [("timer_in", 1)], "K1": [("set_kill_time", "self", 1)], "K2": [("set_kill_time", "self", 2)],
}
FULL = ["s0", "se", "s1", "s2", "e0", "e1", "W", "P", "G", "T", "K1", "K2"]
MID = ["s0", "se", "s1", "e1", "W", "P", "G", "T", "K1", "K2"]
QUICK = ["se", "s1", "W", "P", "G", "K1"]
SMALL = ["se", "s1", "W", "P", "G", "K1"]
TINY = ["se", "s1", "W", "P", "K1"]


def bounds(tier):
    q = [("A=1 K<=2 full alphabet", 1, 2, FULL, False), ("A=1 K=3 (s1, s2, K2, W)", 1, 3, ["s1", "s2", "K2", "W"], True),
         ("A=2 K=1 full", 2, 1, FULL, True),
         ("A=2 K=2 (se, s1, W, P, G, K1)", 2, 2, QUICK, True)]
    if tier == "quick":
        return q
    return q + [("A=3 K=1 full", 3, 1, FULL, True), ("A=1 K=3 (s1, s2, K1, K2, T, W)", 1, 3, ["s1", "s2", "K1", "K2", "T", "W"], True),
                ("A=1 K=3 full", 1, 3, FULL, True), ("A=2 K=2 full", 2, 2, FULL, True), ("A=4 K=1 full", 4, 1, FULL, True),
                ("A=3 K=2 (6 symbols)", 3, 2, SMALL, True), ("A=2 K=3 (5 symbols)", 2, 3, TINY, True)]


def enum(A, K, syms, exact):
    alpha = lambda i, n: [(s,) for s in syms]
    cases = [{"prog": [[op[0] for op in ops] for ops in p]} for p in progs.programs(alpha, A, K, exact=exact)]
    # order only: programs that set a kill time twice (known to abort, findings/C03-set-kill-time-twice.md) share packs
    cases.sort(key=lambda c: not any(sum(s in ("K1", "K2") for s in ops) >= 2 for ops in c["prog"]))
    return cases


def expand(case):
    tmpl = tuple(tuple(op for s in ops for op in SYM[s]) for ops in case["prog"])
    return progs.instantiate(tmpl)


def build_prog(case):
    ops = expand(case)
    A = len(ops)
    plat = simlib.default_platform(A, links=[(i, j, MB, 0.5) for i in range(A) for j in range(i + 1, A)])
    plat["actors"] = [{"name": "a%d" % i, "host": "h%d" % i, "on_exit": 1, "ops": ops[i]} for i in range(A)]
    return plat


_refcache = {}


def reference(case, prog, end):
    """allowed observations; `end` = date at which the (possibly shared) simulation ended: deadlocked actors die then"""
    k = json.dumps(case["prog"])
    if k not in _refcache:
        if len(_refcache) > 5000:
            _refcache.clear()
        try:
            _refcache[k] = timed_ref.allowed(prog)
        except timed_ref.RefError as e:
            _refcache[k] = e
    if isinstance(_refcache[k], Exception):
        raise _refcache[k]
    if _refcache[k][1].deadlock and end is not None:
        return timed_ref.allowed(prog, end_date=F(end))
    return _refcache[k]


def key_of(case, what):
    return "prog=%s => %s" % ("|".join("[" + ",".join(ops) + "]" for ops in case["prog"]), what)


def judge(case, prog, obs):
    res = {"case": case, "ok": True, "problems": [], "error": None, "coincide": False, "special": False}
    if obs["status"] != 0:
        res["ok"] = False
        res["problems"].append("simulation ended with status %s (%s)" % (obs["status"], obs.get("crash") or "no message"))
        return res
    P = res["problems"]
    sub = any("se" in ops for ops in case["prog"])
    res["special"] = sub or any(s in ("s0", "e0") for ops in case["prog"] for s in ops)
    clk = 0.0
    fired = {}
    for (ev, val, c) in obs["sig"]:
        if ev == "time_advance" and float(val) < 0:
            P.append("negative time advance")
        if c < clk:
            P.append("clock decreases in the signal log")
        clk = c
        if ev == "timer":
            name, _, d = val.partition(":")
            fired[(name, float(d))] = fired.get((name, float(d)), 0) + 1
            if c != float(d):
                P.append("timer set for %s fired at %s" % (d, c))
    dates = {}
    want_timers = {}
    for a in prog["actors"]:
        logs = obs["actors"].get(a["name"], [])
        if len(logs) != 1:
            P.append("actor %s has %d incarnations" % (a["name"], len(logs)))
            continue
        log = logs[0]
        prev = 0.0
        created = {}
        for k, (ev, val, c) in enumerate(log):
            if c < prev:
                P.append("clock decreases in the log of " + a["name"])
            if c > 0:
                dates.setdefault(c, set()).add(a["name"])
            op = a["ops"][k - 1] if 1 <= k <= len(a["ops"]) and ev == a["ops"][k - 1][0] else None
            if op is not None:
                if ev == "sleep":
                    d, delta = op[1], F(c) - F(prev)
                    if d == 0 and delta != 0:
                        P.append("sleep_for(0) took %s" % float(delta))
                    elif d >= 1e-9 and (delta != F(d) if not sub else abs(delta - F(d)) > F(1, 10 ** 12)):
                        P.append("sleep_for(%s) returned after %.17g" % (d, float(delta)))
                    elif 0 < d < 1e-9 and not (F(d) <= delta <= F(1e-9) + F(1, 10 ** 15)):
                        P.append("sub-precision sleep_for(%s) returned after %.17g" % (d, float(delta)))
                if ev == "exec_async":
                    created[op[1]] = c
                if ev == "timer_in" and val == "ok":
                    want_timers[(a["name"], c + op[1])] = want_timers.get((a["name"], c + op[1]), 0) + 1
                if ev == "times":
                    st, fi = (float(x) for x in val.split("/"))
                    if st < created.get(op[1], 0.0):
                        P.append("activity started before its creation")
                    if fi < st:
                        P.append("activity finished before it started")
                    if fi > c:
                        P.append("activity finish time after the date its wait returned")
            prev = c
    for k, n in want_timers.items():
        if fired.get(k, 0) != n:
            P.append("timer set for %s fired %d times instead of %d" % (k[1], fired.get(k, 0), n))
    for k in fired:
        if k not in want_timers:
            P.append("a timer nobody set fired")
    for (ev, val, c) in obs["sig"]:
        if ev == "timer" and c > 0:
            dates.setdefault(c, set()).add("timer")
    res["coincide"] = any(len(v) >= 2 for v in dates.values())
    try:
        allowed, ref = reference(case, prog, obs["end"])
    except timed_ref.RefError as e:
        if str(e) in ("sharing",):
            res["skipped"] = str(e)
        else:
            res["error"] = "reference: %s" % e
        res["ok"] = not P
        return res
    real = timed_ref.normalize(obs)
    tol = F(1, 10 ** 8) if sub else 0
    if not timed_ref.member(real, allowed, tol):
        # describe the first difference against the closest allowed observation
        P.append("observation not allowed by the reference: " + timed_ref.first_diff(real, allowed, tol))
        res["observed"] = timed_ref.show(real)
        res["expected"] = [timed_ref.show(o) for o in list(allowed)[:2]]
    res["ref_size"] = len(allowed)
    res["ok"] = not P
    return res


def what_class(r):
    """failure signature without dates: the part of the key after '::'"""
    import re
    p = r["problems"][0]
    p = re.sub(r"^simulation ended with status \d+", "simulation crashed", p)
    p = re.sub(r"[0-9]+\.[0-9e+-]+", "#", p)
    return p[:160]


def run(ctx):
    import time
    binary = simlib.build()
    mod = sys.modules[__name__]
    evaluations, done, per = 0, [], {}
    nontrivial, special, skipped = set(), 0, 0
    bad, errors, samples = [], [], []
    exhaustive, rate = True, None
    for (name, A, K, syms, exact) in bounds(ctx.tier):
        if ctx.deadline.left() < 25 and done:
            exhaustive = False
            break
        cases = enum(A, K, syms, exact)
        if not ctx.quick and rate and len(cases) > 1500 and len(cases) / rate * 2.0 > ctx.deadline.left() - 25:      # would not finish
            exhaustive = False
            break
        t_b = time.time()
        results = simlib.eval_cases_packed(binary, cases, "checks.c03", K=32, tag="c03")
        evaluations += len(results)
        nb = 0
        for r in results:
            if r["error"]:
                errors.append((r["case"], r["error"]))
                continue
            if r.get("skipped"):
                skipped += 1
            if r["coincide"]:
                nontrivial.add(json.dumps(r["case"]))
            special += 1 if r["special"] else 0
            if not r["ok"]:
                nb += 1
                bad.append(r)
        per[name] = {"programs": len(cases), "failed": nb, "t_s": round(time.time() - ctx.t0, 1)}
        common.log("C03 %s: %d programs, %d failing, t=%.0fs" % (name, len(cases), nb, time.time() - ctx.t0))
        done.append(name)
        if len(cases) >= 300:
            rate = len(cases) / max(0.5, time.time() - t_b)
        if cases and len(samples) < 4:
            c = cases[len(cases) // 2]
            samples.append({"program": c["prog"], "ops": expand(c)})
    simlib.cleanup("c03")
    if errors:
        common.log("C03: harness error on %d programs, first: %s" % (len(errors), errors[0]))
        raise SystemExit(2)
    bykey = {}
    for r in bad:
        bykey.setdefault(what_class(r), []).append(r)
    vio = []
    for cls, rs in sorted(bykey.items()):
        rs.sort(key=lambda r: (sum(len(o) for o in r["case"]["prog"]), json.dumps(r["case"])))
        c = simlib.confirm(binary, mod, rs[0], lambda r: what_class(r) if r["problems"] else "")
        if c is None:
            common.log("C03: violation did not reproduce identically (harness bug): %s" % key_of(rs[0]["case"], cls))
            raise SystemExit(2)
        r2 = c[1]
        vio.append(common.Violation(key_of(rs[0]["case"], cls), "%s (%d programs with this signature; smallest shown%s)" % (
            "; ".join(r2["problems"][:3]), len(rs), ", fails only inside its pack" if c[0] == "pack" else ""),
            {"case": r2["case"], "pack": r2.get("packed_with") if c[0] == "pack" else None, "program": build_prog(r2["case"]),
             "observed": r2.get("observed"), "expected_one_of": r2.get("expected"),
             "other_programs": [x["case"]["prog"] for x in rs[1:30]]}))
    coverage = {
        "evaluations": evaluations, "distinct_nontrivial": len(nontrivial),
        "rule": "odometer over actors x symbols (canonical forms), one real simulation per program; non-trivial = distinct "
                "programs in whose real run one date > 0 is carried by events of at least two different actors/timers",
        "samples": samples, "exhaustive": exhaustive, "bounds_completed": done, "per_bound": per,
        "programs_with_zero_or_subprecision_duration": special, "programs_skipped_resource_sharing": skipped,
        "violating_programs": len(bad),
    }
    if len(nontrivial) < 2:
        common.log("C03: vacuous run")
        raise SystemExit(2)
    common.finish(ctx, "exploration", coverage,
                  ["dyadic durations: dates are exact doubles, compared with ==; only programs containing sleep_for(4e-10) use a 1e-8 tolerance",
                   "one host per actor, one link per pair of hosts (CM02, TCP-gamma 0, latency 0.5, 1 MiB/s)",
                   "lib/timed_ref.py decides the allowed observations; simultaneous events in any order",
                   "set_kill_time for a date equal to the current date: both 'dies now' and 'ignored' accepted"],
                  vio, engine="sim")


def replay(ctx, rf):
    binary = simlib.build()
    case = rf["case"]["case"]
    mod = sys.modules[__name__]
    if rf["case"].get("pack"):
        r = simlib.judge_in_pack(binary, mod, case, rf["case"]["pack"])
    else:
        r = simlib.judge_alone(binary, mod, case)
    print(json.dumps({"program": case["prog"], "ops": expand(case), "problems": r["problems"], "error": r["error"],
                      "observed": r.get("observed")}, indent=1))
    return 0 if r["ok"] and not r["error"] else 1
