"""C43 Checker and application agree on every transition: for every observable simcall kind, in every state of small programs,
what the application encoded (read from the observer object's own fields) is compared with what the checker decodes from the
serialised bytes (fields of the deserialised Transition): type, actor, object ids, parameters. A decoder that blocks or crashes
is detected under a watchdog, and simgrid-mc itself must end on each program."""
import os, re, time, shutil
import common, vxlib, smc, synccheck, mcprogs

def programs(ctx):
    P = []
    for rec in (0, 1):
        P.append(dict(mutex=[rec, 0], actors=[[("trylock", 0), ("lock", 0), ("unlock", 0), ("unlock", 0), ("lock", 1), ("unlock", 1)], [("lock", 1), ("trylock", 0), ("unlock", 0), ("unlock", 1)]]))
    for cap in (0, 1, 2):
        P.append(dict(sem=[cap, 1], actors=[[("acq", 1), ("acqt", 0), ("rel", 1)], [("rel", 0), ("acq", 1), ("rel", 1)]]))
    P.append(dict(mutex=[0, 0], cv=2, actors=[[("cwait", 0, 0), ("cwaitfor", 1, 1)], [("notify", 0), ("notifyall", 1)], [("notifyall", 0), ("notify", 1)]]))
    for n in (1, 2, 3):
        P.append(dict(bar=[n, 2], actors=[[("bwait", 0), ("bwait", 1)], [("bwait", 1), ("bwait", 0)], [("bwait", 0)]]))
    P.append(dict(mbox=2, actors=[[("put", 0, 11), ("put", 1, 12)], [("get", 1), ("get", 0)]]))
    P.append(dict(mbox=2, actors=[[("puta", 0, 11, 0), ("puta", 1, 12, 1), ("test", 0), ("wait", 0), ("wait", 1)], [("geta", 1, 0), ("geta", 0, 1), ("test", 1), ("wait", 0), ("wait", 1)]]))
    P.append(dict(mbox=2, actors=[[("puta", 0, 11, 0), ("puta", 1, 12, 1), ("waitany",), ("waitany",)], [("geta", 0, 0), ("geta", 1, 1), ("testany",), ("waitany",), ("waitany",)]]))
    P.append(dict(mbox=1, actors=[[("detach", 0, 11), ("detach", 0, 12)], [("setrecv", 0), ("get", 0), ("get", 0)]]))
    P.append(dict(mbox=1, actors=[[("sendf", 0, 11, 1), ("sendf", 0, 12, 2)], [("recvf", 0, 2), ("recvf", 0, 1)]]))
    for lo, hi in ((0, 1), (3, 5), (-1, 1)):
        P.append(dict(actors=[[("random", lo, hi), ("create", 0), ("join", 0), ("sleep",)], [("sleep",), ("random", lo, hi)]], templates=[[("sleep",)]]))
    P.append(dict(mq=2, actors=[[("mput", 0, 11), ("mputa", 1, 12, 0), ("mwait", 0)], [("mget", 1), ("mgeta", 0, 0), ("mwait", 0)]]))
    P.append(dict(mq=1, actors=[[("mput", 0, 11)], [("mget", 0)]]))
    if not ctx.quick:
        f = mcprogs.family
        for g in (f("c04", ["rec-A2K3"]), f("c05", ["c1-A3K2"]), f("c06", ["A2K2"]), f("c07", ["n2-A1to4"]), f("c08", ["basic-A2K2", "any-A2K2", "filter-A2K2", "perm-A2K2"]), f("c09", ["multi-A2K2"], False)):
            P += list(g())
    return P

def klass(app, chk):
    a = app.split(" ")[0]
    if chk.startswith("DECODER-"):
        return "%s %s" % (a, chk.split(" ")[0])
    c = chk.split(" ")[0]
    if c != a:
        return "%s decoded-as-%s" % (a, re.sub(r"[^A-Za-z_?-]", "", c))
    return "%s field-mismatch" % a

def run(ctx):
    progs = [("p%d" % i, p) for i, p in enumerate(programs(ctx))]
    res = vxlib.run_agree(progs, "c43")
    tot = dict(programs=0, transitions=0, crashed=0)
    types, violations = {}, {}
    for pid, p in progs:
        r = res.get(pid)
        if r is None or r["status"] != "OK":
            tot["crashed"] += 1
            key = "C43 explorer-crash uses=%s" % mcprogs.features(p)
            violations.setdefault(key, common.Violation(key, "the kernel or the decoder crashed while exploring %s: %s" % (synccheck.compact(p), (r or {}).get("errors")), dict(program=p, kind="crash")))
            continue
        tot["programs"] += 1; tot["transitions"] += r["n"]
        for t, k in r["types"].items():
            types[t] = types.get(t, 0) + k
        for path, app, chk in r["violations"]:
            key = "C43 disagree " + klass(app, chk)
            violations.setdefault(key, common.Violation(key, "after [%s] the application executed '%s' and the checker decodes '%s' -- program: %s" % (path, app, chk, synccheck.compact(p)),
                                                        dict(program=p, kind="disagree", path=path)))
    # the checker itself must terminate on each of the small programs (first 40 only: they are the one-per-kind programs)
    binary = vxlib.vx_binary(); d = common.tmpdir("c43")
    pf = os.path.join(d, "p.txt"); open(pf, "w").write("".join(vxlib.prog_text(pid, p) for pid, p in progs[:40]))
    hangs = 0
    def job(i):
        return i, smc.run(binary, pf, i, ["model-check/reduction:dpor"], d, "c43-%d" % i, timeout=90)
    import concurrent.futures as cf
    with cf.ThreadPoolExecutor(max_workers=common.NCPU) as ex:
        for i, r in ex.map(job, range(min(40, len(progs)))):
            if r["timeout"]:
                r2 = smc.run(binary, pf, i, ["model-check/reduction:dpor"], d, "c43b-%d" % i, timeout=300)   # alone, longer, before calling it a hang
                if r2["timeout"]:
                    hangs += 1
                    key = "C43 checker-hangs uses=%s" % mcprogs.features(progs[i][1])
                    violations.setdefault(key, common.Violation(key, "simgrid-mc (dpor) does not terminate within 300 s on %s" % synccheck.compact(progs[i][1]), dict(program=progs[i][1], kind="hang")))
    shutil.rmtree(d, ignore_errors=True)
    if tot["programs"] < 2 or len(types) < 10:
        common.log("vacuous run: %s %s" % (tot, types)); raise SystemExit(2)
    cov = dict(evaluations=tot["transitions"], distinct_nontrivial=len(types), programs=tot["programs"], transitions_compared_by_type={k: types[k] for k in sorted(types)},
               checker_runs=min(40, len(progs)), checker_hangs=hangs,
               rule="every transition executed in the stateful exploration of each program: observer fields vs decoded Transition fields; non-trivial = distinct simcall kinds compared",
               samples=[dict(program=synccheck.compact(progs[i][1])) for i in (0, 5, 12, 19) if i < len(progs)], exhaustive=True)
    common.finish(ctx, "exploration", cov, ["the application side is read from the observer objects' fields, never through their serialize(); the checker side from the fields of the object deserialize_transition returns",
                  "Mailbox::iprobe is reachable from SMPI only and not covered"], list(violations.values()), engine="E1 vx + E3 smc")

def replay(ctx, case):
    c = case["case"]
    r = vxlib.run_agree([("x", c["program"])], "c43r")["x"]
    print("program:", synccheck.compact(c["program"])); print("transitions compared", r["n"], "disagreements", r["bad"])
    for v in r["violations"][:10]:
        print("  ", v)
    return 1 if r["bad"] or r["status"] != "OK" else 0
