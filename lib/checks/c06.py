"""C06 Condition variable semantics under every interleaving: notify_one wakes the longest waiter or is lost, notify_all
wakes exactly the waiters present, a woken / timed-out waiter returns owning its mutex (checked by the actor itself right
after wait returns: 'own' vs 'NOTOWNER' in its log), wait_for may time out iff not notified (MC model: non-deterministic)."""
import itertools
import common, vxlib, synccheck

def gen(ncv, nact, maxops, minops=1, ops=("cwait", "cwaitfor", "notify", "notifyall"), flag=False):
    alpha = []
    for c in range(ncv):
        for o in ops:
            alpha.append((o, c, c) if o.startswith("cwait") else (o, c))
    if flag:
        alpha += [("set", 0, 1), ("logv", 0)]
    seqs = [s for n in range(minops, maxops + 1) for s in itertools.product(alpha, repeat=n)]
    def g():
        for combo in itertools.combinations_with_replacement(seqs, nact):
            actors = [list(c) for c in combo]
            if not any(op[0].startswith("cwait") for a in actors for op in a) or not any(op[0].startswith("notify") for a in actors for op in a):
                continue
            if flag and not (any(op[0] == "set" for a in actors for op in a) and any(op[0] == "logv" for a in actors for op in a)):
                continue
            p = dict(mutex=[0] * ncv, cv=ncv, actors=actors)
            if flag:
                p["var"] = [0]
            yield p
    return g

def bounds(ctx):
    b = [("A2K2", gen(1, 2, 2)), ("A3K1", gen(1, 3, 1)), ("A3K2-nofor", gen(1, 3, 2, 2, ops=("cwait", "notify", "notifyall")))]
    if not ctx.quick:
        b += [("A3K2", gen(1, 3, 2, 2)), ("A2K3", gen(1, 2, 3, 3)), ("A4K1", gen(1, 4, 1)), ("2cv-A2K2", gen(2, 2, 2, 2)),
              ("flag-A2K3", gen(1, 2, 3, 3, ops=("cwait", "notify"), flag=True)), ("A4K2-nofor", gen(1, 4, 2, 2, ops=("cwait", "notify", "notifyall")))]
    return b

def run(ctx):
    synccheck.run_bounds(ctx, bounds(ctx), "condition variables",
        ["MC-mode code paths (wait = CONDVAR_ASYNC_LOCK + CONDVAR_WAIT + MUTEX_WAIT); wait_for(t>0) may fire ungranted there, which is the timeout outcome",
         "exact dates of wait_for timeouts belong to the timed engine",
         "one non-recursive mutex per condition variable, as in the property's quantifier"])

replay = synccheck.replay
