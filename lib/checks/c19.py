"""C19 — update algorithms and solver options give the same timings (engine E4/res, level exploration; differential property).

All multisets of 1..2 (quick) / 3 (+ a reduced 4) (thorough) activities (execs with priorities / bounds / threads, comms over a
shared link) x control programs (suspend/resume, priority and bound changes) x availability profiles (host speed, link
bandwidth; one-shot and periodic), each run under every legal combination of cpu/optim {Lazy, Full, TI} x network/optim
{Lazy, Full} x maxmin-selective-update {yes, no}; the finish date and final state of every activity must agree with the
default configuration within 1e-9."""
import itertools, os, time
from fractions import Fraction as F
import common, reslib
from reslib import Scen, Case, pack, close

S = 1e9
BW = 1e8
LAT = 2.0 ** -7

CPU_OPTS = {"Lazy": [("cpu/optim", "Lazy")],
            "Full": [("cpu/optim", "Full"), ("cpu/maxmin-selective-update", "yes")],
            "Full-nosel": [("cpu/optim", "Full"), ("cpu/maxmin-selective-update", "no")],
            "TI": [("cpu/optim", "TI")]}
NET_OPTS = {"Lazy": [("network/optim", "Lazy")],
            "Full": [("network/optim", "Full"), ("network/maxmin-selective-update", "yes")],
            "Full-nosel": [("network/optim", "Full"), ("network/maxmin-selective-update", "no")]}
CONFIGS = [(c, n) for c in CPU_OPTS for n in NET_OPTS]
REF = ("Lazy", "Lazy")

EXEC_ALPHA = [("exec", w, st, a) for w, st, a in itertools.product((1, 2), (0, 0.5), ("plain", "prio", "bound", "thr"))]
COMM_ALPHA = [("comm", w, st, "-") for w, st in itertools.product((1, 2), (0, 0.5))]
ALPHA = EXEC_ALPHA + COMM_ALPHA
# control programs on activity 0 (dates between / on the natural events 0, 0.5, 1, ...)
EVPROGS = {"none": [],
           "susp.25-res.75": [(0.25, "suspend"), (0.75, "resume")],
           "susp.5-res1.5": [(0.5, "suspend"), (1.5, "resume")],
           "prio3@.25": [(0.25, "prio", 3)],
           "bound.25S@.25-S@.75": [(0.25, "bound", S / 4), (0.75, "bound", S)],
           "susp.25-prio3@.5-res.75": [(0.25, "suspend"), (0.5, "prio", 3), (0.75, "resume")]}
PROFILES = {"none": None,
            "speed-oneshot": ("speed", -1, "0.25:0.5,0.75:1"),
            "speed-periodic": ("speed", 1, "0:1,0.5:0.5"),
            "bw-oneshot": ("bw", -1, "0.25:%s,0.75:%s" % (reslib.fnum(BW / 2), reslib.fnum(BW)))}


def scen(sid, variants, evname, profname, cores):
    c = Scen(sid)
    h, a, b, l = c.n("h"), c.n("a"), c.n("b"), c.n("l")
    c.add("host", h, cores, S).add("host", a, 1, S).add("host", b, 1, S)
    c.add("link", l, BW, LAT, "SHARED")
    c.add("route", a, b, l)
    prof = PROFILES[profname]
    if prof:
        kind, period, pts = prof
        c.add("profile", kind, h if kind == "speed" else l, period, -1, pts)
    ids = []
    ti_ok = cores == 1 and profname != "speed-oneshot"
    for i, (k, w, st, attr) in enumerate(variants):
        aid = c.n("%s%d" % (k[0], i))
        ids.append(aid)
        if k == "exec":
            opt = {"plain": [], "bound": ["bound=%s" % reslib.fnum(S / 2)], "prio": ["prio=2"], "thr": ["threads=2"]}[attr]
            c.add("act", aid, "exec", float(st), h, w * S, *opt)
            if attr in ("bound", "thr"):
                ti_ok = False
        else:
            c.add("act", aid, "comm", float(st), a, b, w * BW)
    kind0, _, st0, attr0 = variants[0]
    for ev in EVPROGS[evname]:
        d, op = ev[0], ev[1]
        c.add("ev", float(d) + float(st0), op, ids[0], *[float(x) for x in ev[2:]])
        if op == "bound":
            ti_ok = False
    c.meta = {"acts": ids, "ti_ok": ti_ok,
              "label": "cores=%d %s | ev(act0)=%s | profile=%s" % (
                  cores, " ".join("%s:%gx@%g%s" % (k, w, st, "" if a in ("-", "plain") else ":" + a) for k, w, st, a in variants),
                  evname, profname)}
    return c


def legal(variants, evname, cores):
    kind0, _, _, attr0 = variants[0]
    ops = {e[1] for e in EVPROGS[evname]}
    if kind0 == "comm" and ops & {"prio", "bound"}:
        return False          # priorities/bounds are changed on executions only
    if attr0 == "thr" and ops & {"prio", "bound"}:
        return False          # a multi-threaded exec ignores priority and bound
    if cores == 1 and any(a == "thr" for _, _, _, a in variants):
        return False
    return True


def scenarios(k, combos, coreset):
    """combos: list of (control program, profile)"""
    out = []
    for cores in coreset:
        for ms in itertools.combinations_with_replacement(ALPHA, k):
            # the controlled activity is activity 0: take every distinct member of the multiset as activity 0
            firsts = sorted(set(ms), key=ALPHA.index)
            for f0 in firsts:
                rest = list(ms)
                rest.remove(f0)
                variants = (f0,) + tuple(rest)
                for ev, pr in combos:
                    if ev == "none" and f0 != firsts[0]:
                        continue
                    if not legal(variants, ev, cores):
                        continue
                    out.append(scen("s%d" % len(out), variants, ev, pr, cores))
    return out


def bounds_for(ctx):
    E, P = list(EVPROGS), list(PROFILES)
    FULL = list(itertools.product(E, P))
    # reduced cross product: every control program without profile, every profile without control program, and
    # suspend/resume across a speed and a bandwidth change
    RED = [(e, "none") for e in E] + [("none", p) for p in P if p != "none"] + \
          [("susp.25-res.75", "speed-periodic"), ("susp.25-res.75", "bw-oneshot")]
    B = [("1 activity x 6 control programs x 4 profiles x cores 1,2", lambda: scenarios(1, FULL, (1, 2)))]
    if ctx.quick:
        for combo in RED:
            B.append(("2 activities x (%s, %s) x 1 core" % combo, (lambda cb: lambda: scenarios(2, [cb], (1,)))(combo)))
        return B
    for e in E:
        B.append(("2 activities x %s x 4 profiles x cores 1,2" % e,
                  (lambda ev: lambda: scenarios(2, [(ev, p) for p in P], (1, 2)))(e)))
    for combo in RED:
        B.append(("3 activities x (%s, %s) x 1 core" % combo, (lambda cb: lambda: scenarios(3, [cb], (1,)))(combo)))
    B.append(("4 activities x (none, none) x 2 cores", lambda: scenarios(4, [("none", "none")], (2,))))
    B.append(("4 activities x (none, speed-periodic) x 1 core", lambda: scenarios(4, [("none", "speed-periodic")], (1,))))
    return B


PACKSIZE = 300


def cfg_of(conf):
    return CPU_OPTS[conf[0]] + NET_OPTS[conf[1]]


def cases_for(scens, confs, prefix):
    out = {}
    for conf in confs:
        elig = [s for s in scens if conf[0] != "TI" or s.meta["ti_ok"]]
        out[conf] = pack("%s%s_%s_" % (prefix, conf[0], conf[1]), cfg_of(conf), elig, PACKSIZE)
    return out


def observe(scens, confs, tag, prefix="p"):
    """-> {scen id: {conf: {act: (start, finish, state)} or 'crash:...'}}"""
    cs = cases_for(scens, confs, prefix)
    allc = [c for v in cs.values() for c in v]
    res = reslib.run_cases(allc, tag=tag, timeout=180)
    # a crashed simulation is split into single-scenario simulations
    again = []
    for conf, cl in cs.items():
        for c in cl:
            if res[c.id]["status"] != "exit=0" and len(c.scens) > 1:
                again += [(conf, c.single(s)) for s in c.scens]
    res2 = reslib.run_cases([c for _, c in again], tag=tag, timeout=180) if again else {}
    obs = {s.id: {} for s in scens}
    nsim = len(allc) + len(again)

    def put(conf, c, r):
        for s in c.scens:
            if r["status"] != "exit=0":
                obs[s.id][conf] = "crash:%s %s" % (r["status"], r["raw"][-200:].replace("\n", " | "))
            else:
                obs[s.id][conf] = {a: (r["acts"][a]["start"], r["acts"][a]["finish"], r["acts"][a]["state"]) for a in s.meta["acts"]}
    for conf, cl in cs.items():
        for c in cl:
            r = res[c.id]
            if r["status"] != "exit=0" and len(c.scens) > 1:
                continue
            put(conf, c, r)
    for conf, c in again:
        put(conf, c, res2[c.id])
    return obs, nsim


def compare(s, ob):
    """-> list of (key, what); distinct finish dates seen in the reference"""
    fails = []
    ref = ob.get(REF)
    lab = s.meta["label"]
    if isinstance(ref, str):
        return [("C19 %s cfg=Lazy/Lazy crash" % lab, ref)]
    for conf, o in ob.items():
        if conf == REF:
            continue
        cname = "%s/%s" % conf
        if isinstance(o, str):
            fails.append(("C19 %s cfg=%s crash" % (lab, cname), o))
            continue
        for a in s.meta["acts"]:
            (s0, f0, st0), (s1, f1, st1) = ref[a], o[a]
            if st0 != st1 or not close(f1, f0, 1e-9, 1e-9) or not close(s1, s0, 1e-9, 1e-9):
                fails.append(("C19 %s cfg=%s" % (lab, cname),
                              "%s: [%.17g, %.17g] %s under cpu/net = %s, [%.17g, %.17g] %s under Lazy/Lazy" % (
                                  a[len(s.p):], s1, f1, st1, cname, s0, f0, st0)))
                break
    return fails


def run(ctx):
    reslib.harness()
    tag = "c19"
    evaluations = sims = 0
    nontrivial = 0
    done, skipped, per_bound, samples = [], [], {}, []
    failing = []
    for name, gen in bounds_for(ctx):
        if done and (ctx.deadline.over() or ctx.deadline.left() < 10):
            skipped.append(name)
            continue
        t0 = time.time()
        scens = gen()
        obs, n = observe(scens, CONFIGS, tag)
        sims += n
        nf = 0
        for s in scens:
            ob = obs[s.id]
            evaluations += len(ob)
            fails = compare(s, ob)
            ref = ob.get(REF)
            # non-trivial: the control program / profile / sharing really changed the timing of the reference run
            if isinstance(ref, dict) and len(ref) >= 1:
                nontrivial += 1 if ("none" not in s.meta["label"].split("|")[1] or "profile=none" not in s.meta["label"]
                                    or len(ref) > 1) else 0
            if fails:
                nf += 1
                failing.append((s, fails))
            if len(samples) < 5 and len(ob) == len(CONFIGS) and evaluations % 7 == 0:
                samples.append({"scenario": s.lines, "configs": ["%s/%s" % c for c in ob],
                                "dates": {a[len(s.p):]: ref[a] for a in s.meta["acts"]} if isinstance(ref, dict) else ref})
        per_bound[name] = {"scenarios": len(scens), "simulations": n, "failing_scenarios": nf, "wall_s": round(time.time() - t0, 1)}
        done.append(name)
    # confirmation: each failing (scenario, configuration) alone, twice, identical
    violations = []
    key_count = {}
    for s, fails in failing:
        for k, w in fails:
            key_count[k] = key_count.get(k, 0) + 1
    groups = {}
    for s, fails in failing:
        for k, w in fails:
            groups.setdefault(classify(k, w), []).append((s, k, w))
    by_class = {g: len(v) for g, v in groups.items()}
    for g, members in groups.items():
        for s, k, w in members[:2]:
            conf = tuple(k.split("cfg=")[1].split(" ")[0].split("/"))
            again = []
            for rep in range(2):
                ob, n = observe([s], [REF, conf] if conf != REF else [REF], tag, prefix="r%d" % rep)
                sims += n
                again.append(sorted(x[0] for x in compare(s, ob[s.id])))
            if not (again[0] == again[1] and k in again[0]):
                common.log("verif: %s does not fail identically when its scenario is re-run alone (%s): exit 2" % (k, again))
                reslib.cleanup(tag)
                raise SystemExit(2)
            case = {"scen": s.to_json(), "confs": [list(REF), list(conf)]}
            violations.append(common.Violation(g if g != k else k, "%s ; %s (%d configuration x scenario pairs in this class)" % (
                s.meta["label"] + " cfg=%s/%s" % conf, w, len(members)), case))
    reslib.cleanup(tag)
    cov = {"evaluations": evaluations, "distinct_nontrivial": nontrivial,
           "rule": "every multiset of k activities from the 20-variant alphabet (exec {1,2}xS x start {0,.5} x {plain,prio 2,bound S/2,"
                   "2 threads}; comm {1,2}xBW x start {0,.5}) x which member is controlled x control program x profile x cores, run "
                   "under the 12 legal cpu/optim x network/optim x selective-update combinations (TI only for 1-core, bound-free, "
                   "repeating-profile scenarios); an evaluation = one scenario under one configuration; non-trivial = scenarios with "
                   ">=2 activities or a control program or a profile (the update algorithms have something to disagree on)",
           "samples": samples, "exhaustive": not skipped, "bounds_completed": done, "bounds_not_started": skipped,
           "per_bound": per_bound, "simulations_run": sims, "configurations": ["%s/%s" % c for c in CONFIGS],
           "failing_pairs_by_class": by_class}
    if nontrivial < 2 and not violations:
        raise SystemExit(2)
    common.finish(ctx, "exploration", cov,
                  ["differential property: the reference is the default configuration (cpu/optim:Lazy, network/optim:Lazy)",
                   "Lazy forces selective update (SimGrid refuses Lazy with selective update off), so 12 combinations are legal",
                   "bound changes of a running exec use the kernel entry point (Action::set_user_bound + set_bound), like the VM layer",
                   "tolerance 1e-9 relative + 1e-9 s"], violations, engine="E4 res")


def classify(key, what=""):
    """Group the failing (scenario, configuration) pairs by what differs, so that one root cause is one key: the model of the
    differing activity (cpu or network side, and which update algorithm) and the control features of the scenario (the
    profile only when there is no control program)."""
    lab, conf = key.split(" cfg=")
    conf = conf.split(" ")[0]
    ev = lab.split("ev(act0)=")[1].split(" |")[0]
    prof = lab.split("profile=")[1]
    cpu, net = conf.split("/")
    feat = []
    if "susp" in ev:
        feat.append("suspend/resume")
    if "prio3" in ev:
        feat.append("priority change")
    if "bound" in ev:
        feat.append("bound change")
    if not feat and prof != "none":
        feat.append(prof + " profile")
    if key.endswith(" crash"):
        side = "cpu/optim:%s network/optim:%s crash" % (cpu, net)
    elif what.startswith("c"):
        side = "network/optim:" + net.replace("-nosel", " without selective update")
    else:
        side = "cpu/optim:" + cpu.replace("-nosel", "")
    return "C19 %s differs from Lazy under %s" % (side, " + ".join(feat) if feat else "plain sharing")


def replay(ctx, case):
    reslib.harness()
    c = case["case"]
    s = Scen.from_json(c["scen"])
    confs = [tuple(x) for x in c["confs"]]
    ob, _ = observe([s], confs, "c19r")
    reslib.cleanup("c19r")
    print("scenario:", s.meta["label"])
    print("\n".join(s.lines))
    for conf, o in ob[s.id].items():
        print("cfg %s/%s:" % conf, o)
    fails = compare(s, ob[s.id])
    for k, w in fails:
        print("FAIL key: %s\n     what: %s" % (classify(k, w), w))
    if not fails:
        print("no difference on this case")
    return 1 if fails else 0
