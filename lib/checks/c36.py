"""C36 — each rank has its own copy of global variables (engine E7 mpix, harness/mpix/c36/priv.c).

Exhaustive bounded enumeration, bound by bound (k = max number of ops per rank, k = 1, 2, 3): every pair (A, B) of op
sequences of length <= k over {G write globals, S write statics, C check, B barrier, R ring Sendrecv of one int between
*global* buffers (detached copy at send time), Q ring Sendrecv of 1 kB between global arrays (not detached: copied by the
kernel), Z rank-dependent sleep} with the same sequence of collective ops (so no program can deadlock), x rank-to-program
pattern (rank 0 runs A, the others B | even ranks A, odd ranks B) x np x smpi/privatization in {mmap, dlopen}.
One generated C program interprets the list (compile cost constant); every program starts with "write fresh rank-specific
values everywhere; barrier", checks all five variables (global .bss/.data, file static .bss/.data, function static) after
every blocking call and at the end against expectations kept on the rank's own stack.
Oracle: a rank reads back exactly what it wrote last (values name their writer, so a foreign value is recognised);
ring: the value received is the left neighbour's, the send buffer is unchanged.
Vacuity guard: the same programs are run with smpi/privatization:no; the programs in which a foreign value is then observed
are the non-trivial ones (measured)."""
import os, sys, json, time, itertools, concurrent.futures as cf
import common, mpix

OPS = "GSCBRQZ"
SYNC = "BRQ"
NPS = {"quick": [2, 3], "thorough": [2, 3, 8]}
MODES = ["mmap", "dlopen"]
CFG = ["smpi/send-is-detached-thresh:128"]
CHUNK = 16


def programs(k):
    """All (A, B, pattern-agnostic) pairs of bound exactly k: max(len A, len B) == k, same projection on SYNC."""
    by = {}
    for n in range(0, k + 1):
        for t in itertools.product(OPS, repeat=n):
            s = "".join(t)
            by.setdefault("".join(c for c in s if c in SYNC), []).append(s)
    out = []
    for sk in sorted(by):
        for a in by[sk]:
            for b in by[sk]:
                if max(len(a), len(b)) == k:
                    out.append((a or "-", b or "-"))
    return out


def lines_for(k, np_):
    pats = [0] if np_ == 2 else [0, 1]     # with two ranks both patterns are the same assignment
    return [(a, b, p) for (a, b) in programs(k) for p in pats]


def write_file(tmp, k, np_):
    path = os.path.join(tmp, "progs-k%d-np%d.txt" % (k, np_))
    ls = lines_for(k, np_)
    if not os.path.exists(path):
        with open(path, "w") as f:
            f.write("".join("%s %s %d\n" % l for l in ls))
    return path, ls


def _run_range(job):
    """Run programs [lo,hi) of a file under one mode; on a crash/hang locate the program (markers every 16, then one by
    one) and resume after it. Returns dict(out=[stdout...], crashes=[(idx, rc, err)], complete)."""
    tmp, binary, path, np_, mode, lo, hi, kill_at = job
    outs, crashes, start = [], [], lo
    while start < hi:
        left = kill_at - time.time()
        if left <= 0:
            return {"out": outs, "crashes": crashes, "complete": False}
        rc, out, err = mpix.smpirun(tmp, binary, np_, [path, start, hi], cfg=["smpi/privatization:" + mode] + CFG,
                                    timeout=left, nhosts=8)
        ns = [d for t, d in mpix.records(out) if t == "N"]
        if rc == 0 and len(ns) == np_ and all(int(d["progs"]) == hi - start for d in ns):
            outs.append(out)
            return {"out": outs, "crashes": crashes, "complete": True}
        if rc == 124 and kill_at - time.time() <= 1:
            return {"out": outs, "crashes": crashes, "complete": False}
        # the simulation died or hung: keep what was printed before the last marker, find the culprit
        ps = [int(d["idx"]) for t, d in mpix.records(out) if t == "P"]
        first_bad = ps[-1] if ps else start
        if first_bad > start:
            rc2, out2, err2 = mpix.smpirun(tmp, binary, np_, [path, start, first_bad],
                                           cfg=["smpi/privatization:" + mode] + CFG, timeout=max(5, kill_at - time.time()), nhosts=8)
            outs.append(out2)
        culprit = None
        for idx in range(first_bad, min(hi, first_bad + CHUNK)):
            rc1, out1, err1 = mpix.smpirun(tmp, binary, np_, [path, idx, idx + 1], cfg=["smpi/privatization:" + mode] + CFG,
                                           timeout=60, nhosts=8)
            ns1 = [d for t, d in mpix.records(out1) if t == "N"]
            if rc1 == 0 and len(ns1) == np_:
                outs.append(out1)
            else:
                culprit = (idx, rc1, err1[-500:])
                break
        if culprit is None:
            # dies in sequence but not alone: report the range as one crash at its first program (replay = the range)
            culprit = (first_bad, rc, "only in sequence %d..%d: %s" % (start, hi, err[-400:]))
            crashes.append(culprit + ((start, hi),))
            return {"out": outs, "crashes": crashes, "complete": False}
        crashes.append(culprit + (None,))
        if len(crashes) > 20:
            return {"out": outs, "crashes": crashes, "complete": False}
        start = culprit[0] + 1
    return {"out": outs, "crashes": crashes, "complete": True}


def _key(mode, np_, d):
    return "C36 %s priv=%s np=%d prog=%s rank=%s step=%s var=%s" % (d["kind"], mode, np_, d["prog"], d["rank"], d["step"], d["var"])


def _sig(d):
    return tuple(d.get(k) for k in ("kind", "prog", "np", "rank", "step", "var", "got", "exp"))


def _sig_loose(d):     # which foreign value is seen may depend on what ran before; where and what kind may not
    return tuple(d.get(k) for k in ("kind", "prog", "np", "rank", "step", "var"))


def run(ctx):
    binary = mpix.build_smpi("c36_priv", ["c36/priv.c"])
    tmp = common.tmpdir("c36")
    mpix.platform(tmp, 8)
    nps = NPS[ctx.tier]
    groups = {}       # (kind, mode) -> {"count", "first": (order, record, case)}
    tot = dict(program_runs=0, programs=0, checks=0, writes=0, nontrivial=0, offruns=0)
    per_bound, samples, exhaustive, done, not_started = [], [], True, [], []
    rate = 0.002
    try:
        for k in (1, 2, 3):
            for np_ in nps:
                path, ls = write_file(tmp, k, np_)
                n = len(ls)
                predicted = 5 + rate * n * 1.3      # rate = wall seconds per program measured on the last big bound
                if ctx.deadline.over() or predicted > ctx.deadline.left():
                    exhaustive = False
                    not_started.append("k=%d np=%d" % (k, np_))
                    common.log("C36: bound k=%d np=%d not started (%.0fs left, needs ~%.0fs)" % (k, np_, ctx.deadline.left(), predicted))
                    continue
                nsh = max(1, min(common.NCPU, n // 400))
                cuts = [n * i // nsh for i in range(nsh + 1)]
                kill_at = time.time() + max(20, ctx.deadline.left() + 15)
                jobs = [(tmp, binary, path, np_, mode, cuts[i], cuts[i + 1], kill_at)
                        for mode in MODES + ["no"] for i in range(nsh)]
                if ctx.seed:
                    import random
                    random.Random(ctx.seed).shuffle(jobs)
                t0 = time.time()
                with cf.ThreadPoolExecutor(max_workers=common.NCPU) as ex:
                    res = list(ex.map(_run_range, jobs))
                complete = True
                b = dict(k=k, np=np_, programs=n, runs=0, checks=0, nontrivial=0)
                for job, r in zip(jobs, res):
                    mode = job[4]
                    if not r["complete"] and mode != "no":
                        complete = False
                    bad_off = set()
                    for out in r["out"]:
                        for t, d in mpix.records(out):
                            if t == "N" and mode != "no":
                                if d["rank"] == "0":
                                    b["runs"] += int(d["progs"])
                                b["checks"] += int(d["checks"])
                                tot["writes"] += int(d["writes"])
                            elif t == "V" and mode == "no":
                                if int(d["idx"]) >= 0 and d["kind"].endswith("foreign-value"):
                                    bad_off.add(int(d["idx"]))
                            elif t == "V":
                                g = groups.setdefault((d["kind"], mode), {"count": 0, "first": None})
                                g["count"] += 1
                                order = (k, np_, int(d["idx"]), int(d["rank"]), int(d["step"]), d["var"])
                                case = {"k": k, "np": np_, "mode": mode, "idx": int(d["idx"]), "line": list(ls[int(d["idx"])]) if int(d["idx"]) >= 0 else None}
                                case["shard_lo"] = job[5]
                                if int(d["idx"]) < 0:   # seen by the check of the loader's initial values: depends on what the
                                    case["range"] = [job[5], job[5] + 1]   # other ranks already did in the first program of the shard
                                if g["first"] is None or order < g["first"][0]:
                                    g["first"] = (order, d, case)
                    if mode == "no":
                        b["nontrivial"] += len(bad_off)
                        tot["offruns"] += 1
                    else:
                        for (idx, rc, err, rng) in r["crashes"]:
                            g = groups.setdefault(("crash", mode), {"count": 0, "first": None})
                            g["count"] += 1
                            order = (k, np_, idx, 0, 0, "")
                            d = {"kind": "crash", "prog": "%s:%s:%d" % ls[idx], "np": str(np_), "rank": "-", "step": "-", "var": "-",
                                 "rc": rc, "err": err}
                            case = {"k": k, "np": np_, "mode": mode, "idx": idx, "line": list(ls[idx]), "range": rng}
                            if g["first"] is None or order < g["first"][0]:
                                g["first"] = (order, d, case)
                if not complete:
                    exhaustive = False
                    common.log("C36: bound k=%d np=%d not completed before the deadline: discarded" % (k, np_))
                    not_started.append("k=%d np=%d (started, discarded)" % (k, np_))
                    continue
                b["wall_s"] = round(time.time() - t0, 1)
                if n >= 5000:
                    rate = (time.time() - t0) / n
                per_bound.append(b)
                tot["program_runs"] += b["runs"]
                tot["programs"] += n
                tot["checks"] += b["checks"]
                tot["nontrivial"] += b["nontrivial"]
                done.append("k=%d np=%d" % (k, np_))
                if len(samples) < 9:
                    samples += ["np=%d ranks:%s A=%s B=%s" % (np_, "0->A,rest->B" if l[2] == 0 else "even->A,odd->B", l[0], l[1])
                                for l in (ls[0], ls[n // 2], ls[-1])]
                common.log("C36: k=%d np=%d: %d programs x %s, %d checks, %d colliding without privatisation [%.1fs]"
                           % (k, np_, n, MODES, b["checks"], b["nontrivial"], time.time() - t0))

        violations = []
        for (kind, mode), g in sorted(groups.items()):
            order, d, case = g["first"]
            key = _key(mode, case["np"], d)
            for attempt in (1, 2):
                ok, seen = _rerun(tmp, binary, case, d)
                if not ok:
                    common.log("C36: violation %s did not reproduce alone (attempt %d): harness bug\n%s" % (key, attempt, seen))
                    sys.exit(2)
            what = ("%s: under smpi/privatization:%s with %d ranks, program A=%s B=%s (%s): rank %s at step %s read %s=%s, expected %s; %d record(s) of this kind"
                    % (kind, mode, case["np"], case["line"][0] if case["line"] else "init", case["line"][1] if case["line"] else "init",
                       "rank 0 runs A" if case["line"] and case["line"][2] == 0 else "even ranks run A",
                       d["rank"], d["step"], d["var"], d.get("got", "?"), d.get("exp", "?"), g["count"])) if kind != "crash" else (
                    "the simulation died/hung (rc=%s) under smpi/privatization:%s np=%d on program %s: %s" % (d["rc"], mode, case["np"], d["prog"], d["err"][-200:]))
            case["record"] = d
            violations.append(common.Violation(key, what, case))
    finally:
        mpix.cleanup(tmp)

    if tot["nontrivial"] < 2:
        common.log("C36: vacuous run (%d colliding programs)" % tot["nontrivial"])
        sys.exit(2)
    coverage = {
        "evaluations": tot["program_runs"],
        "distinct_nontrivial": tot["nontrivial"],
        "rule": "a case = one program (A, B, rank pattern) x np x privatization mode run by the interpreter; evaluations counts "
                "program runs under mmap and dlopen; non-trivial = distinct (program, np) in which, with smpi/privatization:no, "
                "some rank really reads a value written by another rank (measured by running the same lists without "
                "privatisation), i.e. the collision the alphabet aims at happens",
        "samples": samples,
        "exhaustive": exhaustive,
        "bounds_completed": done,
        "bounds_not_completed": not_started,
        "per_bound": per_bound,
        "distinct_programs": tot["programs"],
        "checks_of_own_value": tot["checks"],
        "writes": tot["writes"],
        "modes": MODES,
        "np": nps,
        "violation_groups": {"%s/%s" % k: v["count"] for k, v in sorted(groups.items())},
    }
    assumptions = [
        "expected values are kept in the frame of main() of each rank (each rank has its own stack in every privatization mode)",
        "every program is prefixed by 'write fresh values to all variables; MPI_Barrier' so that a program re-run alone behaves as in sequence",
        "smpi/send-is-detached-thresh:128 so that the 4-byte ring is a detached send (buffer copied at send time) and the 1 kB ring is not (buffer read by the kernel copy callback while another rank's segment may be mapped)",
        "both programs of a pair have the same sequence of collective ops (B, R, Q): well-formed by construction, no deadlock",
        "rank-to-program patterns are limited to two (rank 0 vs rest, even vs odd)",
    ]
    common.finish(ctx, "exploration", coverage, assumptions, violations, engine="mpix")


def _rerun(tmp, binary, case, want):
    path, ls = write_file(tmp, case["k"], case["np"])
    if case["idx"] >= 0 and list(ls[case["idx"]]) != list(case["line"]):
        return False, "program list changed: line %d is %s" % (case["idx"], ls[case["idx"]])
    def once(lo, hi):
        rc, out, err = mpix.smpirun(tmp, binary, case["np"], [path, lo, hi], cfg=["smpi/privatization:" + case["mode"]] + CFG,
                                    timeout=300, nhosts=8)
        vs = [d for t, d in mpix.records(out) if t == "V"]
        ns = [d for t, d in mpix.records(out) if t == "N"]
        return rc, vs, ns, "rc=%s\n%s\n%s" % (rc, "\n".join(l for l in out.splitlines() if l[:1] in "VN")[:1500], err[-300:])

    lo, hi = (case["idx"], case["idx"] + 1) if not case.get("range") else case["range"]
    rc, vs, ns, seen = once(lo, hi)
    if want["kind"] == "crash":
        return (rc != 0 or len(ns) != case["np"]), seen
    if any(_sig_loose(v) == _sig_loose(want) for v in vs):
        return True, seen
    # not alone: the same programs as in the run, from the first program of the shard (deterministic as well)
    if case.get("shard_lo") is not None and case["idx"] >= 0 and case["shard_lo"] < case["idx"]:
        rc, vs, ns, seen2 = once(case["shard_lo"], case["idx"] + 1)
        return any(_sig(v) == _sig(want) for v in vs), "alone:\n%s\nin sequence from program %d:\n%s" % (seen, case["shard_lo"], seen2[-1500:])
    return False, seen


def replay(ctx, case):
    binary = mpix.build_smpi("c36_priv", ["c36/priv.c"])
    tmp = common.tmpdir("c36r")
    try:
        mpix.platform(tmp, 8)
        c = case["case"]
        ok, seen = _rerun(tmp, binary, c, c["record"])
        print("C36 replay: privatization=%s np=%d program=%s (k=%d, line %d)" % (c["mode"], c["np"], c["line"], c["k"], c["idx"]))
        print(seen)
        print("C36 replay: recorded violation %s" % ("reproduced" if ok else "NOT reproduced"))
        return 1 if ok else 0
    finally:
        mpix.cleanup(tmp)
