"""C16 — max-min and BMF allocations are fair.  Engine E5 lmmx, level model_checking.

Same exploration as C15 (solvers maxmin and bmf, with and without selective update). After EVERY solve the solved system is
copied into a plain description and judged by oracle.hpp (no SimGrid code):
 * bottleneck condition: every consuming variable strictly below its bound uses a saturated constraint on which its
   penalty-weighted rate (maxmin) / penalty-weighted share (bmf) is the largest; a bmf solve may instead stop with its explicit
   error (counted);
 * maxmin, systems whose consuming variables only use SHARED constraints: rates equal the weighted max-min fair allocation
   computed by an exact-rational progressive filling (128-bit fractions)."""
import common, lmm_common as L
from checks import c15

PROP = "C16"


def run(ctx):
    shs = c15.shards(ctx.quick, mode="c16", solvers=("maxmin", "bmf"))
    shs, res, stages, complete = L.explore(ctx, shs, increments=1 if ctx.quick else 2, reserve=60 if ctx.quick else 60)
    if any(r is None for r in res):
        common.log("C16: not even the first bound completed")
        raise SystemExit(2)
    classes, unjudged, stats = L.collect(PROP, shs, res)
    viols = L.confirm(PROP, classes)
    if stats.get("variables_below_their_bound", 0) < 2 or stats.get("reference_with_several_filling_levels", 0) < 2:
        common.log("C16: vacuous run (%s)" % stats)
        raise SystemExit(2)
    samples = [{"shard": L.shard_name(sh), "history": h} for sh, r in list(zip(shs, res))[:6] for h in r["samples"][-2:]]
    cov = {
        "states": sum(r["states"] for r in res),
        "transitions": sum(r["transitions"] for r in res),
        "reference_evaluations": sum(r["oracle_evaluations"] for r in res),
        "traces_validated_against_impl": sum(r["transitions"] for r in res),
        "samples": samples,
        "exhaustive": bool(complete),
        "history_length_completed_per_family": L.depths_by_family(shs, res),
        "shards": len(shs),
        "stages": stages,
        "solves_judged": stats.get("solves_judged", 0),
        "variables_judged": stats.get("variables_judged", 0),
        "variables_below_their_bound": stats.get("variables_below_their_bound", 0),
        "solves_compared_with_exact_reference": stats.get("solves_compared_with_exact_reference", 0),
        "of_which_with_several_filling_levels": stats.get("reference_with_several_filling_levels", 0),
        "reference_skipped_overflow": stats.get("reference_skipped_overflow", 0),
        "bmf_explicit_errors": stats.get("bmf_explicit_errors", 0),
        "violating_transitions": {k: c["count"] for k, c in classes.items()},
        "unjudged_outcomes": L.note_unjudged(unjudged),
    }
    assumptions = [
        "same systems, alphabets and exploration as C15",
        "tolerance: relative 4e-5 on saturation, 'largest' and on the comparison with the exact reference",
        "bmf: the share of a variable on a constraint is weight*penalty*rate; when several expands hit the same constraint the "
        "condition is accepted with either the summed weight or the largest single weight (the statement does not say)",
        "a variable that consumes nothing is not judged",
    ]
    common.finish(ctx, "model_checking", cov, assumptions, viols, engine=L.ENGINE)


def replay(ctx, case):
    return L.replay(ctx, case)
