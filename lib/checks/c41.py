"""C41 Reported counter-examples are real and replayable: for every program with a reachable deadlock / assertion failure and
every reduction, the path simgrid-mc reports is (i) followed label by label in the reference semantics, where it must be
executable and end in the reported defect, and (ii) replayed twice with --cfg=model-check/replay on the real binary: same
verdict, same output."""
import os, re, time, shutil, subprocess
import common, vxlib, rs, smc, synccheck, mcprogs

REDS = ["none", "dpor", "sdpor", "odpor"]

def bounds(ctx):
    f = mcprogs.family
    b = [("misc", mcprogs.misc()), ("lost-update", mcprogs.chain(mcprogs.lost_update(2, False), mcprogs.lost_update(2, True))), ("mutex", f("c04", ["plain-A2K3"])),
         ("sem", f("c05", ["c0-A2K2-acqt"]))]
    if not ctx.quick:
        b += [("mbox", f("c08", ["basic-A2K2"])), ("barrier", f("c07", ["n2-A1to4"])), ("condvar", f("c06", ["A2K2"])), ("mutex3", f("c04", ["plain-A3K2"])), ("mutex-rec", f("c04", ["rec-A2K3"]))]
    return b

def follow(prog, path):
    """-> (ok, verdict, where): walk the reported path on the reference semantics"""
    s = rs.initial(prog)
    toks = [t for t in path.split(";") if t]
    for i, tok in enumerate(toks):
        a, _, k = tok.partition("/")
        a, k = int(a), int(k or 0)
        en = dict(s.enabled())
        if a not in en or k >= en[a]:
            return False, "label %s not enabled at step %d" % (tok, i), i
        s.step(a, k)
    c = s.canon()
    if s.failed:
        return True, "assertion", len(toks)
    if not s.enabled():
        return True, ("deadlock" if rs.is_deadlock(c) else "terminated"), len(toks)
    return True, "can-run-further", len(toks)

def _replay_once(binary, pfile, idx, path):
    r = subprocess.run([binary, "run", pfile, str(idx), "--cfg=model-check/replay:" + path], stdout=subprocess.PIPE, stderr=subprocess.STDOUT, text=True, errors="replace", timeout=120)
    out = re.sub(r"0x[0-9a-f]+", "0xX", r.stdout)
    if "DEADLOCK detected" in out:
        v = "deadlock"
    elif "MC assertion failed" in out:
        v = "assertion"
    elif "could run further" in out:
        v = "can-run-further"
    elif "no actor remains" in out:
        v = "terminated"
    else:
        v = "other(rc=%s)" % r.returncode
    return v, out

def _job(item):
    pid, prog, idx, pfile, binary, workdir, expect = item
    out = dict(pid=pid, problems=[], reports=0)
    for red in REDS:
        r = smc.run(binary, pfile, idx, ["model-check/reduction:" + red], workdir, "%s-%d" % (pid, os.getpid()), max_errors=0, timeout=300)
        if r["timeout"]:
            out["inconclusive"] = out.get("inconclusive", 0) + 1
            continue
        if r["rc"] not in (0, 1, 2):
            continue  # crashes of the checker are C38's business
        claimed = "deadlock" if r["deadlock"] else ("assertion" if (r["rc"] == 1 or "PROPERTY NOT VALID" in r["out"]) else None)
        if claimed is None:
            continue  # nothing reported (missing reports are judged by C38)
        if not r["paths"]:
            out["problems"].append((red, "no-path", "a %s is reported without a replay path" % claimed))
            continue
        path = r["paths"][0]
        out["reports"] += 1
        ok, verdict, where = follow(prog, path)
        if not ok:
            out["problems"].append((red, "path-not-executable", "reported path %s: %s in the reference semantics" % (path, verdict)))
            continue
        if verdict != claimed:
            out["problems"].append((red, "path-does-not-reach-%s" % claimed, "reported path %s ends in '%s' in the reference semantics, the checker announced a %s" % (path, verdict, claimed)))
            continue
        v1, o1 = _replay_once(binary, pfile, idx, path)
        v2, o2 = _replay_once(binary, pfile, idx, path)
        if v1 != claimed:
            out["problems"].append((red, "replay-does-not-reproduce", "--cfg=model-check/replay:%s gives '%s', the checker announced a %s" % (path, v1, claimed)))
        elif v1 != v2 or o1 != o2:
            out["problems"].append((red, "replay-not-deterministic", "two replays of %s differ (%s / %s)" % (path, v1, v2)))
    return out

def run(ctx):
    binary = vxlib.vx_binary(); d = common.tmpdir("c41")
    tot = dict(programs=0, reports=0, inconclusive=0)
    completed, violations, samples = [], {}, []
    exhaustive = True
    for name, gen in bounds(ctx):
        if ctx.deadline.left() < 20:
            exhaustive = False; break
        t0 = time.time()
        progs = []
        for i, p in enumerate(gen()):
            if p.get("mq"):
                continue
            ref = rs.explore(p)
            terms = [ref["states"][t][0] for t in ref["terminals"]]
            if any(rs.is_deadlock(c) or "ASSERTFAIL" in c for c in terms):
                progs.append(("%s-%d" % (name, i), p))
        pfile = os.path.join(d, name + ".txt")
        open(pfile, "w").write("".join(vxlib.prog_text(pid, p) for pid, p in progs))
        jobs = [(pid, p, i, pfile, binary, d, None) for i, (pid, p) in enumerate(progs)]
        done = 0
        for c in range(0, len(jobs), 64):
            if ctx.deadline.left() < 15:
                exhaustive = False; break
            for res in common.pmap(_job, jobs[c:c + 64]):
                p = dict(progs)[res["pid"]]
                done += 1; tot["programs"] += 1; tot["reports"] += res["reports"]; tot["inconclusive"] += res.get("inconclusive", 0)
                for red, kind, what in res["problems"]:
                    ops = mcprogs.features(p)
                    key = "C41 %s reduction=%s uses=%s" % (kind, red, ops)
                    violations.setdefault(key, common.Violation(key, what + " -- program: " + synccheck.compact(p), dict(program=p, kind=kind, reduction=red)))
        if len(samples) < 4 and progs:
            samples.append(dict(bound=name, program=synccheck.compact(progs[0][1])))
        completed.append(dict(bound=name, failing_programs=done, of=len(progs), wall_s=round(time.time() - t0, 1)))
        common.log("C41 bound %s: %d/%d failing programs %.0fs violations %d" % (name, done, len(progs), time.time() - t0, len(violations)))
        if done < len(progs):
            exhaustive = False
    # confirmation
    vs = []
    for v in violations.values():
        pf = os.path.join(d, "c.txt"); open(pf, "w").write(vxlib.prog_text("x", v.case["program"]))
        a = [_job(("x", v.case["program"], 0, pf, binary, d, None)) for _ in range(2)]
        ks = [sorted((r, k) for r, k, _ in x["problems"]) for x in a]
        if ks[0] != ks[1] or (v.case["reduction"], v.case["kind"]) not in ks[0]:
            common.log("C41: not reproduced identically, dropped: %s" % v.key)
            tot["unreproducible_dropped"] = tot.get("unreproducible_dropped", 0) + 1
            continue
        vs.append(v)
    shutil.rmtree(d, ignore_errors=True)
    if tot["programs"] < 2 or tot["reports"] < 2:
        common.log("vacuous run"); raise SystemExit(2)
    cov = dict(evaluations=tot["reports"], distinct_nontrivial=tot["programs"], rule="every program of the bound with a reachable deadlock or assertion failure (by the reference semantics) x 4 reductions: "
               "the reported path is walked on the reference model and replayed twice on the real binary; non-trivial = failing programs", counterexamples_checked=tot["reports"],
               runs_too_slow_to_conclude=tot["inconclusive"], unreproducible_dropped=tot.get("unreproducible_dropped", 0), bounds_completed=completed, samples=samples, exhaustive=exhaustive)
    common.finish(ctx, "exploration", cov, ["default model-check/max-errors (the checker stops at its first report)", "reference semantics lib/rs.py decides reachability"], vs, engine="E3 smc + E2 rs")

def replay(ctx, case):
    c = case["case"]; binary = vxlib.vx_binary(); d = common.tmpdir("c41r")
    pf = os.path.join(d, "p.txt"); open(pf, "w").write(vxlib.prog_text("x", c["program"]))
    r = _job(("x", c["program"], 0, pf, binary, d, None))
    print("program:", synccheck.compact(c["program"]))
    for p in r["problems"]:
        print("PROBLEM", p)
    return 1 if r["problems"] else 0
