"""C47 Paje traces are well formed  (DESIGN.md §5 group C; engines misc/c47x + misc/c47mpi + monitor lib/paje.py; level exploration).

S4U side: every program of the bound below runs under every tracing option set; the trace file is fed line by line to the
monitor lib/paje.py (declared-before-use of types / values / containers, right kind of type, no use after destroy,
non-decreasing timestamps, no pop on an empty state stack, syntax according to the trace's own %EventDef header).
  programs: ops E exec, C categorized exec, S sleep, P/G put/get (categorized comm), M migrate, V user host+link variables,
            K mark, X create+kill a child actor, Y create a child that ends by itself, H user host state push/pop
    quick   : 1 actor with <=2 ops; 2 actors with <=1 op each (P only in actor 0, G only in actor 1, matched)
    thorough: 1 actor with <=3 ops; actor 0 with <=2 ops and actor 1 with <=1 op
  option sets (all with tracing:yes): platform | +actor | +actor+categorized | +actor+uncategorized (thorough) |
            +actor+categorized+uncategorized | the latter + tracing/basic (thorough); 3-op programs: +actor, +actor+uncategorized, all
MPI side: every op string of length <=1 (quick) / <=2 (thorough) over {b barrier, B bcast, r allreduce, g gather, s sendrecv
  ring, i isend/irecv/waitall, c compute, z sleep} with np in {2,3}, compiled with smpicc and run by smpirun with tracing/smpi
  alone | +internals | +computing | +computing+sleeping (thorough) | +display-sizes | +group (thorough).
One process per (program, option set). A problem class is reported once, with the smallest program showing it.
"""
import os, sys, re, json, subprocess, time, shutil, itertools
import common
import paje

S4U_OPS = "ECSMVKXYH"
S4U_OPTS_Q = ["P", "PA", "PAC", "PACU"]
S4U_OPTS_T = ["P", "PA", "PAC", "PAU", "PACU", "PACUB"]
S4U_OPTS_T3 = ["PA", "PAU", "PACU"]          # for the largest stage (3 ops)
OPTFLAG = {"P": "tracing/platform:yes", "A": "tracing/actor:yes", "C": "tracing/categorized:yes", "U": "tracing/uncategorized:yes",
           "B": "tracing/basic:yes"}
MPI_OPS = "bBrgsicz"
MPI_OPTS_Q = ["", "I", "C", "D"]
MPI_OPTS_T = ["", "I", "C", "CS", "D", "G"]
MPIFLAG = {"I": "tracing/smpi/internals:yes", "C": "tracing/smpi/computing:yes", "S": "tracing/smpi/sleeping:yes",
           "D": "tracing/smpi/display-sizes:yes", "G": "tracing/smpi/group:yes"}


def seqs(alpha, k):
    out = []
    for n in range(k + 1):
        out += ["".join(p) for p in itertools.product(alpha, repeat=n)]
    return out


def s4u_programs(quick):
    progs = []
    for p in seqs(S4U_OPS, 2 if quick else 3):
        if p:
            progs.append(p)                       # one actor
    a0 = seqs(S4U_OPS + "P", 1 if quick else 2)
    a1 = seqs(S4U_OPS + "G", 1)
    for x in a0:
        for y in a1:
            if x.count("P") == y.count("G") and (x or y):
                progs.append(x + "|" + y)
    return progs


def mpi_programs(quick):
    return [(p or "-", np_) for p in seqs(MPI_OPS, 1 if quick else 2) for np_ in (2, 3)]


_G = {}


def _run(cmd, cwd=None):
    for attempt in range(12):
        r = subprocess.run(cmd, stdout=subprocess.PIPE, stderr=subprocess.PIPE, text=True, cwd=cwd)
        if "libsimgrid" not in r.stderr or "error while loading shared libraries" not in r.stderr:
            return r
        time.sleep(10)
    return r


def run_case(case):
    """case = ("s4u", prog, opts) | ("mpi", prog, np, opts) -> dict"""
    d = _G["d"]
    tag = "%s-%d-%d" % (case[0], os.getpid(), _G.setdefault("n", 0))
    _G["n"] += 1
    trace = os.path.join(d, tag + ".trace")
    if case[0] == "s4u":
        _, prog, opts = case
        cmd = [_G["s4u"], prog, "--cfg=tracing:yes", "--cfg=tracing/filename:" + trace, "--log=root.thres:critical"]
        cmd += ["--cfg=" + OPTFLAG[o] for o in opts]
    else:
        _, prog, np_, opts = case
        cmd = [_G["smpirun"], "-np", str(np_), "-platform", _G["plat"], "-hostfile", _G["hosts"], "--cfg=tracing:yes",
               "--cfg=tracing/smpi:yes", "--cfg=tracing/filename:" + trace, "--log=root.thres:critical"]
        cmd += ["--cfg=" + MPIFLAG[o] for o in opts] + [_G["mpi"], prog]
    r = _run(cmd, cwd=d)
    res = {"case": case, "classes": {}, "nontrivial": False, "events": 0, "leftover": 0}
    if r.returncode != 0 or not os.path.exists(trace):
        err = r.stderr or r.stdout
        mm = re.search(r"Uncaught exception (\S+) by [^:]*: ([^\n]*)", err)
        crit = [l for l in err.splitlines() if "CRITICAL" in l or "rror" in l]
        what = ("%s: %s" % (mm.group(1), re.sub(r"\([^)]*\)", "(..)", mm.group(2)))) if mm else "exit %s" % r.returncode
        res["classes"]["run-failed " + what[:120]] = ["exit %s: %s" % (r.returncode, (mm.group(0) if mm else " / ".join(crit[:3]) or err[-300:]))]
        return res
    m = paje.check_file(trace, 200)
    os.unlink(trace)
    res["events"], res["leftover"] = m.nevents, m.leftover_pushes
    res["nontrivial"] = len(m.kinds) >= 3 and len(m.times) >= 2
    inv = iter(m.inversions)
    for cls, ln, text in m.problems:
        if cls == "timestamps":
            cur, prev = next(inv)
            if cur in ("PajeSetVariable", "PajeAddVariable", "PajeSubVariable"):
                sub = "timestamps variable-event-written-late"
            elif prev == "PajeCreateContainer":
                sub = "timestamps event-older-than-a-written-PajeCreateContainer"
            else:
                sub = "timestamps %s-after-%s" % (cur, prev)
        else:
            eid = (text.rsplit(": ", 1)[-1].split() or ["?"])[0]
            sub = "%s %s" % (cls, m.defs.get(eid, (eid,))[0])
        res["classes"].setdefault(sub, []).append("line %d: %s" % (ln, text))
    return res


def case_size(case):
    return (len(case[1].replace("|", "")), len(case[-1]), case[1], case[-1], case[2] if case[0] == "mpi" else 0)


def case_str(case):
    if case[0] == "s4u":
        return "s4u prog=%s opts=%s" % (case[1], case[2])
    return "mpi prog=%s np=%d opts=smpi%s" % (case[1], case[2], case[3] and "+" + case[3])


def setup(d):
    _G["d"] = d
    _G["s4u"] = common.build_harness("c47x", ["misc/c47/c47x.cpp"])
    sgb = os.path.join(common.SG, "smpi_script", "bin")
    _G["smpirun"] = os.path.join(sgb, "smpirun")
    exe = os.path.join(common.HB, "c47mpi")
    src = os.path.join(common.VERIF, "harness", "misc", "c47", "c47mpi.c")
    lib = os.path.join(common.SG, "lib", "libsimgrid.so")
    if not os.path.exists(exe) or os.path.getmtime(exe) < max(os.path.getmtime(src), os.path.getmtime(lib)):
        r = subprocess.run([os.path.join(sgb, "smpicc"), "-O1", src, "-o", exe + ".tmp%d" % os.getpid()], stdout=subprocess.PIPE, stderr=subprocess.STDOUT, text=True)
        if r.returncode:
            common.log(r.stdout[-3000:])
            common.log("verif: c47mpi failed to compile with smpicc")
            raise SystemExit(2)
        os.replace(exe + ".tmp%d" % os.getpid(), exe)
    _G["mpi"] = exe
    _G["plat"] = os.path.join(d, "plat.xml")
    open(_G["plat"], "w").write("""<?xml version='1.0'?>
<!DOCTYPE platform SYSTEM "https://simgrid.org/simgrid.dtd">
<platform version="4.1">
  <zone id="z" routing="Full">
    <host id="n0" speed="1073741824f"/><host id="n1" speed="1073741824f"/><host id="n2" speed="1073741824f"/>
    <link id="l01" bandwidth="1048576Bps" latency="250ms"/><link id="l02" bandwidth="1048576Bps" latency="250ms"/>
    <link id="l12" bandwidth="1048576Bps" latency="250ms"/>
    <route src="n0" dst="n1"><link_ctn id="l01"/></route><route src="n0" dst="n2"><link_ctn id="l02"/></route>
    <route src="n1" dst="n2"><link_ctn id="l12"/></route>
  </zone>
</platform>
""")
    _G["hosts"] = os.path.join(d, "hosts.txt")
    open(_G["hosts"], "w").write("n0\nn1\nn2\n")


def run(ctx):
    d = common.tmpdir("c47")
    setup(d)
    dl = common.Deadline(max(ctx.deadline.left(), 0.8 * (ctx.deadline.end - ctx.deadline.t0)))
    so = S4U_OPTS_Q if ctx.quick else S4U_OPTS_T
    mo = MPI_OPTS_Q if ctx.quick else MPI_OPTS_T
    # stages: the S4U programs by size (number of ops), then the MPI programs by size; a stage is completed or not started
    sp, mp = s4u_programs(ctx.quick), mpi_programs(ctx.quick)
    stages = []
    for k in sorted({len(p.replace("|", "")) for p in sp}):
        stages.append(("s4u/%dops" % k, [("s4u", p, o) for p in sp if len(p.replace("|", "")) == k for o in (S4U_OPTS_T3 if k >= 3 else so)]))
    for k in sorted({len(p.replace("-", "")) for p, _ in mp}):
        stages.append(("mpi/%dops" % k, [("mpi", p, n, o) for p, n in mp if len(p.replace("-", "")) == k for o in mo]))
    # smallest stages first, so that neither side starves the other
    stages.sort(key=lambda s: (len(s[1]), s[0]))
    tot = {"n": 0, "nontrivial": 0, "events": 0, "leftover": 0}
    fails, done, times, by_stage, samples = {}, [], {}, {}, []
    rate = 0.05
    try:
        for name, cases in stages:
            if dl.left() < 3 + len(cases) * rate:
                break
            if ctx.seed:
                import random
                random.Random(ctx.seed).shuffle(cases)
            t0 = time.time()
            for r in common.pmap(run_case, cases, chunksize=4):
                tot["n"] += 1
                tot["events"] += r["events"]
                tot["leftover"] += r["leftover"]
                tot["nontrivial"] += 1 if r["nontrivial"] else 0
                for sub, texts in r["classes"].items():
                    k = (r["case"][0], sub)
                    if k not in fails:
                        fails[k] = [0, r["case"], texts[0]]
                    fails[k][0] += 1
                    if case_size(r["case"]) < case_size(fails[k][1]):
                        fails[k][1:] = [r["case"], texts[0]]
            el = time.time() - t0
            times[name] = round(el, 2)
            by_stage[name] = len(cases)
            if len(cases) >= 100:
                rate = el / len(cases)
            samples.append(case_str(cases[len(cases) // 2]))
            done.append(name)
        violations = []
        for (src, sub), (cnt, case, text) in sorted(fails.items()):
            a = run_case(case)["classes"]
            b = run_case(case)["classes"]
            if sorted(a) != sorted(b) or sub not in a:
                common.log("C47: %s on %s does not reproduce alone (%s / %s): harness bug" % (sub, case_str(case), sorted(a), sorted(b)))
                raise SystemExit(2)
            key = "C47 %s %s" % (src, sub)
            violations.append(common.Violation(key, "%s [smallest case: %s; %d runs show this class]" % (text, case_str(case), cnt),
                                               {"case": list(case)}))
    finally:
        shutil.rmtree(d, ignore_errors=True)
    if tot["nontrivial"] < 2:
        common.log("C47: vacuous run")
        raise SystemExit(2)
    cov = {"evaluations": tot["n"], "distinct_nontrivial": tot["nontrivial"],
           "rule": "one evaluation = one (program, tracing option set) run in its own process, its trace fed to lib/paje.py; all distinct; "
                   "non-trivial = the trace has timed events of >=3 kinds on >=2 distinct dates",
           "samples": samples[:8], "exhaustive": len(done) == len(stages), "stages_completed": done, "stages_target": [s[0] for s in stages],
           "runs_by_stage": by_stage, "seconds_by_stage": times, "trace_events_checked": tot["events"],
           "states_still_pushed_at_destroy_or_end_(not_reported)": tot["leftover"],
           "runs_by_problem_class": {"%s %s" % k: v[0] for k, v in sorted(fails.items())}}
    common.finish(ctx, "exploration", cov,
                  ["the monitor learns the event layouts from the trace's own %EventDef header; 'balanced' is read as: never pop an empty "
                   "stack (states still pushed when a container is destroyed are counted in evidence, not reported)",
                   "programs use the tracing API with its default (current) dates only",
                   "Paje format only (tracing/smpi/format:TI is not a Paje trace); vm tracing not covered"],
                  violations, engine="misc/c47x+c47mpi+lib/paje.py")


def replay(ctx, case):
    d = common.tmpdir("c47")
    try:
        setup(d)
        c = case["case"]["case"]
        r = run_case(tuple(c))
    finally:
        shutil.rmtree(d, ignore_errors=True)
    print(case_str(tuple(c)), "-> %d events" % r["events"])
    for sub, texts in sorted(r["classes"].items()):
        for t in texts[:5]:
            print("  VIOLATED %s :: %s" % (sub, t))
    return 1 if r["classes"] else 0
