"""C25 — shortest-path zones compute minimal routes (engine E6 routex, level exploration).

Every digraph of the bound is declared hop by hop (one-hop routes of 1..3 links, symmetric or one-way) in a Floyd, a Dijkstra,
two DijkstraCache and a Full zone through the C++ platform API; Host::route_to is asked for every ordered pair. The oracle is
a 10-line Bellman-Ford over link counts plus a chain decoder: the returned link list must be a concatenation of declared
one-hop routes leading from src to dst, its length must be the shortest-path length, the three algorithms must agree on
that length, the cache must not change anything (asked twice, and in the opposite source order in a second zone), and Full
must return exactly what was declared.
"""
import os, sys, itertools, shutil, time, random
import common
import route_common as rc

NEEDS_SIMGRID = True
LETTERS = "abcdef"
KINDS = (("F", "floyd"), ("D", "dijkstra"), ("C", "dijkstracache"), ("R", "dijkstracache"), ("U", "full"))
GRAPHS_PER_ENGINE = 40     # SimGrid's seal() and link creation are quadratic in the number of zones of an Engine
BATCH_CPU = 60      # CPU seconds for an Engine with GRAPHS_PER_ENGINE graphs (normally < 2)
SOLO_CPU = 2        # CPU seconds for one zone of <= 6 hosts (normally a few ms)


# ------------------------------------------------------------------------------------------------ pair-state alphabets
# state of an unordered pair {a<b}: (mode, w_ab, w_ba); mode: '-' absent, 's' declared once as symmetrical a->b,
# 'f' one-way a->b, 'b' one-way b->a, '2' both directions declared one by one (independent link sets)
def alphabet(weights, both=True):
    st = [("-", 0, 0)]
    for w in weights:
        st.append(("s", w, w))
    for w in weights:
        st.append(("f", w, 0))
        st.append(("b", 0, w))
    if both:
        for w1 in weights:
            for w2 in weights:
                st.append(("2", w1, w2))
    return st


def flip(state):
    m, x, y = state
    return ({"f": "b", "b": "f"}.get(m, m), y, x)


def pairs_of(n):
    return [(a, b) for a in range(n) for b in range(a + 1, n)]


class Space:
    """All labelled digraphs on n nodes over an alphabet, reduced to one representative per isomorphism class (smallest
    code under node permutations), filtered by connectivity. Sharded by the states of the first pairs."""

    def __init__(self, n, states, want):
        self.n, self.states, self.want = n, states, want   # want: "strong" | "weak-only"
        self.pairs = pairs_of(n)
        idx = {p: i for i, p in enumerate(self.pairs)}
        fl = {i: states.index(flip(s)) for i, s in enumerate(states)}
        self.flipidx = [fl[i] for i in range(len(states))]
        self.perms = []
        for pi in itertools.permutations(range(n)):
            if list(pi) == list(range(n)):
                continue
            # new code position t = pair {x<y}; it receives the state of the pair {pi^-1(x), pi^-1(y)}, flipped if the order flips
            inv = [0] * n
            for i, v in enumerate(pi):
                inv[v] = i
            row = []
            for (x, y) in self.pairs:
                a, b = inv[x], inv[y]
                row.append((idx[(a, b)], False) if a < b else (idx[(b, a)], True))
            self.perms.append(row)

    def canonical(self, code):
        fl = self.flipidx
        for row in self.perms:
            for t, (src, f) in enumerate(row):
                v = code[src]
                if f:
                    v = fl[v]
                c = code[t]
                if v < c:
                    return False
                if v > c:
                    break
        return True

    def arcs(self, code):
        out = {}
        for (a, b), si in zip(self.pairs, code):
            m, wab, wba = self.states[si]
            if wab:
                out[(a, b)] = wab
            if wba:
                out[(b, a)] = wba
        return out

    def connectivity(self, code):
        """-> 'strong', 'weak' (connected as an undirected graph, not strongly) or 'none'."""
        n = self.n
        arcs = self.arcs(code)
        succ = [[] for _ in range(n)]
        pred = [[] for _ in range(n)]
        for (a, b) in arcs:
            succ[a].append(b)
            pred[b].append(a)

        def reach(adj):
            seen, todo = {0}, [0]
            while todo:
                x = todo.pop()
                for y in adj[x]:
                    if y not in seen:
                        seen.add(y)
                        todo.append(y)
            return len(seen) == n
        if reach(succ) and reach(pred):
            return "strong"
        und = [succ[i] + pred[i] for i in range(n)]
        return "weak" if reach(und) else "none"

    def shard_prefixes(self, depth):
        depth = min(depth, len(self.pairs))
        return list(itertools.product(range(len(self.states)), repeat=depth))

    def enumerate(self, prefix):
        k = len(self.states)
        rest = len(self.pairs) - len(prefix)
        for tail in itertools.product(range(k), repeat=rest):
            code = prefix + tail
            if not self.canonical(code):
                continue
            c = self.connectivity(code)
            if (self.want == "strong" and c == "strong") or (self.want == "weak-only" and c == "weak"):
                yield code


def fixed_family_n6():
    """All 6 trees on 6 nodes and the 6-cycle with every edge a symmetric route of 1..3 links, and the directed 6-cycle with
    arcs of 1..3 links (DESIGN: 'all trees/cycles on 6, edges doubled')."""
    trees = [[(0, 1), (1, 2), (2, 3), (3, 4), (4, 5)], [(0, 1), (1, 2), (2, 3), (3, 4), (2, 5)], [(0, 1), (1, 2), (2, 3), (3, 4), (1, 5)],
             [(0, 1), (1, 2), (2, 3), (1, 4), (2, 5)], [(0, 1), (1, 2), (2, 3), (1, 4), (1, 5)], [(0, 1), (0, 2), (0, 3), (0, 4), (0, 5)]]
    out = []
    for edges in trees:
        for ws in itertools.product((1, 2, 3), repeat=5):
            out.append({"n": 6, "decl": [("s", a, b, w) for (a, b), w in zip(edges, ws)]})
    cyc = [(i, (i + 1) % 6) for i in range(6)]
    for ws in itertools.product((1, 2, 3), repeat=6):
        out.append({"n": 6, "decl": [("s", min(a, b), max(a, b), w) for (a, b), w in zip(cyc, ws)]})
        out.append({"n": 6, "decl": [("f", a, b, w) for (a, b), w in zip(cyc, ws)]})
    return out


def graph_of(space, code):
    decl = []
    for (a, b), si in zip(space.pairs, code):
        m, wab, wba = space.states[si]
        if m == "s":
            decl.append(("s", a, b, wab))
        elif m == "f":
            decl.append(("f", a, b, wab))
        elif m == "b":
            decl.append(("f", b, a, wba))
        elif m == "2":
            decl.append(("f", a, b, wab))
            decl.append(("f", b, a, wba))
    return {"n": space.n, "decl": decl}


def graph_str(g):
    return "n=%d " % g["n"] + " ".join("%s%s%s%d" % (LETTERS[a], "=" if m == "s" else ">", LETTERS[b], w) for m, a, b, w in g["decl"])


# ------------------------------------------------------------------------------------------------ case text and reference
def link_lat(a, b, i):
    return round(0.001 * (1 + (a * 6 + b) * 3 + i), 6)


def declared(g, z):
    """-> arcs: (a, b) -> [link names] as routed from a to b (a symmetrical declaration gives the reverse list to (b, a))."""
    arcs = {}
    for m, a, b, w in g["decl"]:
        names = ["%s%s%s%d" % (z, LETTERS[a], LETTERS[b], i) for i in range(w)]
        arcs[(a, b)] = names
        if m == "s":
            arcs[(b, a)] = names[::-1]
    return arcs


def zone_lines(g, z, kind):
    lines = ["zone %s - %s" % (z, kind)]
    for v in range(g["n"]):
        lines.append("host %s %s%s" % (z, z, LETTERS[v]))
    for m, a, b, w in g["decl"]:
        names = ["%s%s%s%d" % (z, LETTERS[a], LETTERS[b], i) for i in range(w)]
        for i, nm in enumerate(names):
            lines.append("link %s %s %r S" % (z, nm, link_lat(a, b, i)))
        lines.append("route %s %s%s %s%s %d %s" % (z, z, LETTERS[a], z, LETTERS[b], 1 if m == "s" else 0, ",".join(names)))
    return lines


def case_text(graphs, kinds=KINDS):
    """graphs: list of (gid, g). One Engine, five zones per graph (or only the given kinds)."""
    lines, queries = [], []
    for gid, g in graphs:
        for letter, kind in kinds:
            z = "%s%s" % (gid, letter)
            lines += zone_lines(g, z, kind)
            if letter == "C":
                queries += ["qall %s noself" % z, "qall %s noself" % z]          # miss, then hit
            elif letter == "R":
                queries += ["qall %s desc noself" % z]              # sources in the opposite order
            else:
                queries += ["qall %s noself" % z]
    return "\n".join(lines + ["links"] + queries)


def bellman_ford(n, w):
    """w: (a, b) -> weight. -> dist[a][b] (None if unreachable); boring on purpose."""
    INF = float("inf")
    dist = [[INF] * n for _ in range(n)]
    for s in range(n):
        d = dist[s]
        d[s] = 0
        for _ in range(n):
            for (a, b), x in w.items():
                if d[a] + x < d[b]:
                    d[b] = d[a] + x
    return dist


def nontrivial(n, w, dist):
    """Fewest links != fewest hops for some pair: the minimal-link distance is smaller than the link count of every
    minimal-hop path (lexicographic Bellman-Ford on (hops, links))."""
    INF = (10 ** 9, 10 ** 9)
    for s in range(n):
        d = [INF] * n
        d[s] = (0, 0)
        for _ in range(n):
            for (a, b), x in w.items():
                c = (d[a][0] + 1, d[a][1] + x)
                if c < d[b]:
                    d[b] = c
        for t in range(n):
            if t != s and d[t] != INF and dist[s][t] < d[t][1]:
                return True
    return False


def judge_graph(gid, g, results):
    """results: one CaseResult for all five zones, or {zone letter: CaseResult}.
    -> (route answers judged, nontrivial?, problems); problems = [(rule, zone kind, pair, detail)], the first of each
    (rule, zone kind) so that one defect does not hide another."""
    n = g["n"]
    w = {}
    for m, a, b, x in g["decl"]:
        w[(a, b)] = x
        if m == "s":
            w[(b, a)] = x
    dist = bellman_ford(n, w)
    judged = 0
    counts = {}
    probs = {}

    def bad(rule, kind, pair, detail):
        probs.setdefault((rule, kind), (rule, kind, pair, detail))

    for letter, kind in KINDS:
        z = "%s%s" % (gid, letter)
        res = results[letter] if isinstance(results, dict) else results
        if res.crash or res.builderr or not res.complete:
            bad(*dead(res, kind)[2])
            continue
        arcs = declared(g, z)
        first, last = {}, {}    # first / last link of a declared one-hop route -> the arcs concerned
        for arc, names in arcs.items():
            first.setdefault(names[0], []).append(arc)
            last.setdefault(names[-1], []).append(arc)
        lat = {}
        for m, a, b, x in g["decl"]:
            for i in range(x):
                lat["%s%s%s%d" % (z, LETTERS[a], LETTERS[b], i)] = link_lat(a, b, i)
        host_index = {"%s%s" % (z, LETTERS[v]): v for v in range(n)}
        for k in range(2 if letter == "C" else 1):
            ans = res.answers(z, k)
            if ans is None or len(ans[1]) != n * n or sorted(ans[0]) != sorted(host_index):
                bad("no-answer", kind, "-", "query %d of the zone not answered" % k)
                continue
            names, lines = ans
            order = [host_index[x] for x in names]
            pos = -1
            for s in order:
                for d in order:
                    pos += 1
                    if s == d:
                        continue
                    if letter == "U" and (s, d) not in arcs:
                        continue            # Full: only declared pairs are specified
                    pair = "%s->%s" % (LETTERS[s], LETTERS[d])
                    rlat, links = res.decode(lines[pos])
                    reach = dist[s][d] != float("inf")
                    if rlat is None:
                        if reach:
                            bad("exception", kind, pair, links[:120])
                        continue            # no path exists: refusing is fine
                    judged += 1
                    if not reach:
                        if links:
                            bad("route-without-path", kind, pair, " ".join(links))
                        continue
                    if letter == "U":
                        if links != arcs[(s, d)]:
                            bad("full-not-declared-route", kind, pair, "got %s declared %s" % (" ".join(links), " ".join(arcs[(s, d)])))
                            continue
                    else:
                        cur, i, ok = s, 0, True
                        while i < len(links):
                            arc = next((x for x in first.get(links[i], ()) if x[0] == cur), None)
                            if arc is not None and links[i:i + len(arcs[arc])] == arcs[arc]:
                                pass
                            else:
                                # the same hop with its links in the opposite order? (reported, then the walk goes on)
                                arc = next((x for x in last.get(links[i], ()) if x[0] == cur), None)
                                if arc is not None and links[i:i + len(arcs[arc])] == arcs[arc][::-1]:
                                    bad("hop-links-reversed", kind, pair, "declared %s, returned %s" %
                                        (" ".join(arcs[arc]), " ".join(links[i:i + len(arcs[arc])])))
                                else:
                                    bad("not-a-chain", kind, pair, "at %s, links %s" % (LETTERS[cur], " ".join(links)))
                                    ok = False
                                    break
                            i += len(arcs[arc])
                            cur = arc[1]
                        if not ok:
                            continue
                        if cur != d:
                            bad("chain-ends-elsewhere", kind, pair, "ends at %s: %s" % (LETTERS[cur], " ".join(links)))
                            continue
                        if len(links) != dist[s][d]:
                            bad("not-minimal", kind, pair, "%d links, shortest path has %d: %s" % (len(links), dist[s][d], " ".join(links)))
                            continue
                        counts.setdefault((s, d), set()).add(len(links))
                    want = sum(lat[x] for x in links)
                    if not rc.close(want, rlat):
                        bad("latency", kind, pair, "reported %r, links sum to %r" % (rlat, want))
    for (s, d), c in sorted(counts.items()):
        if len(c) != 1:
            bad("algorithms-disagree", "all", "%s->%s" % (LETTERS[s], LETTERS[d]), "link counts %s" % sorted(c))
    for (rule, kind) in list(probs):       # the cache variant shares the code: one report when both fail the same rule
        if kind == "dijkstra" and (rule, "dijkstracache") in probs:
            p = probs.pop((rule, kind))
            probs.pop((rule, "dijkstracache"))
            probs[(rule, "dijkstra*")] = (rule, "dijkstra*", p[2], p[3])
    plist = [probs[k] for k in sorted(probs)]
    return judged, nontrivial(n, w, dist), plist


def canon(text, gid):
    return text.replace(gid, "G") if text else text


def run_graphs(exe, graphs, workdir, tag, per_engine=GRAPHS_PER_ENGINE):
    """graphs: list of g. -> [(g, judged, nontrivial, [problems])]; an Engine that died (crash, or killed after BATCH_CPU seconds
    of CPU) is re-run one zone per Engine with SOLO_CPU seconds each, so that the zone kind that dies is known."""
    named = [("G%d" % i, g) for i, g in enumerate(graphs)]
    batches = [named[i:i + per_engine] for i in range(0, len(named), per_engine)]
    out, redo = [], []
    if per_engine > 1:
        res = rc.run_cases(exe, [("b%d" % i, case_text(b)) for i, b in enumerate(batches)], workdir, tag, case_cpu=BATCH_CPU)
        for i, b in enumerate(batches):
            r = res["b%d" % i]
            if r.crash or r.builderr or not r.complete:
                redo += b
            else:
                for gid, g in b:
                    j, nt, ps = judge_graph(gid, g, r)
                    out.append((g, j, nt, [(p[0], p[1], p[2], canon(p[3], gid)) for p in ps]))
    else:
        redo = named
    if redo:
        cases = [("%s.%s" % (gid, letter), case_text([(gid, g)], [(letter, kind)])) for gid, g in redo for letter, kind in KINDS]
        res = rc.run_cases(exe, cases, workdir, tag + "-solo", case_cpu=SOLO_CPU)
        for gid, g in redo:
            j, nt, ps = judge_graph(gid, g, {letter: res["%s.%s" % (gid, letter)] for letter, _ in KINDS})
            out.append((g, j, nt, [(p[0], p[1], p[2], canon(p[3], gid)) for p in ps]))
    return out


def dead(r, kind="-"):
    import re
    if r.crash:
        m = re.search(r"sig=(\d+)", r.crash)
        sig = int(m.group(1)) if m else 0
        if sig in (14, 24, 9) or (sig == 6 and "bad_alloc" in r.crash):
            return 0, False, ("hang", kind, "-", "route_to does not return (killed after %d s of CPU or 3 GB of memory)" % SOLO_CPU)
        return 0, False, ("crash", kind, "-", re.sub(r"\s+", " ", r.crash)[:120])
    if r.builderr:
        return 0, False, ("build-error", kind, "-", r.builderr[:120])
    return 0, False, ("no-answer", kind, "-", "case output incomplete")


# ------------------------------------------------------------------------------------------------ bounds
def bounds_for(ctx):
    """-> [(name, kind, payload)]: kind 'space' -> (n, states, want, shard depth) ; kind 'list' -> graphs.
    Cheap and diverse bounds first: a deadline then cuts the largest 4-node spaces, not the 5- and 6-node families."""
    full = alphabet((1, 2, 3))
    a13 = alphabet((1, 3))
    a13q = [("-", 0, 0), ("s", 1, 1), ("s", 3, 3), ("f", 1, 0), ("b", 0, 1), ("f", 3, 0), ("b", 0, 3)]
    a13m = a13q + [("2", 1, 3), ("2", 3, 1)]
    weakq = [("-", 0, 0), ("f", 1, 0), ("b", 0, 1)]
    weakt = [("-", 0, 0), ("s", 1, 1), ("f", 1, 0), ("b", 0, 1), ("f", 3, 0), ("b", 0, 3)]
    a5 = [("-", 0, 0), ("s", 1, 1), ("s", 3, 3), ("f", 1, 0), ("b", 0, 1)]
    sc = "all strongly connected digraphs up to isomorphism"
    b = [("n=2, one-hop routes of 1..3 links, symmetric / one-way / both ways declared one by one; strongly connected", "space", (2, full, "strong", 1)),
         ("n=3, same alphabet (19 states per pair), " + sc, "space", (3, full, "strong", 1))]
    if ctx.quick:
        b.append(("n=3, one-way routes of 1 link, weakly but not strongly connected digraphs (reachable pairs judged)", "space",
                  (3, weakq, "weak-only", 1)))
    else:
        b.append(("n=3, routes of 1 or 3 links (symmetric 1, one-way 1 or 3), weakly but not strongly connected digraphs (reachable "
                  "pairs judged)", "space", (3, weakt, "weak-only", 1)))
    b.append(("n=4, routes of 1 or 3 links, symmetric or one-way (7 states per pair), " + sc, "space", (4, a13q, "strong", 2)))
    if not ctx.quick:
        b += [("n=6, the 6 trees and the 6-cycle with symmetric routes of 1..3 links, the directed 6-cycle", "list", fixed_family_n6()),
              ("n=4, routes of 1 or 3 links: symmetric, one-way, or both ways with different lengths (9 states per pair), " + sc,
               "space", (4, a13m, "strong", 2)),
              ("n=5, symmetric routes of 1 or 3 links or one-way routes of 1 link (5 states per pair), " + sc, "space", (5, a5, "strong", 3)),
              ("n=4, routes of 1 or 3 links, all 11 states per pair, " + sc, "space", (4, a13, "strong", 2)),
              ("n=4, routes of 1..3 links (19 states per pair), " + sc, "space", (4, full, "strong", 2))]
    return b


# number of graphs of the large bounds (measured; only used to decide whether a bound still fits in the budget)
SIZE_HINT = {"n=4/9": 16965, "n=5/5": 65908, "n=4/11": 64325, "n=4/19": 140000}


def _worker(arg):
    exe, work, tag, kind, payload = arg
    per_engine = GRAPHS_PER_ENGINE
    if kind == "space":
        n, states, want, prefixes = payload
        sp = Space(n, states, want)
        graphs = [graph_of(sp, code) for pf in prefixes for code in sp.enumerate(pf)]
        if want != "strong":
            per_engine = 1      # a zone that does not return must not take 150 graphs with it
    else:
        graphs = payload
    evals = judged = nontriv = 0
    bad, sample = [], None
    CH = 3000
    for i in range(0, len(graphs), CH):
        for g, j, nt, p in run_graphs(exe, graphs[i:i + CH], work, "%s-%d" % (tag, i), per_engine):
            evals += 1
            judged += j
            nontriv += 1 if nt else 0
            for x in p:
                bad.append((g, x))
            if nt and sample is None:
                sample = graph_str(g)
    return evals, judged, nontriv, bad, sample


def signature(g, p):
    return "%s | %s | %s | %s | %s" % (graph_str(g), p[0], p[1], p[2], p[3])


def graph_class(g):
    w = {}
    for m, a, b, x in g["decl"]:
        w[(a, b)] = x
        if m == "s":
            w[(b, a)] = x
    d = bellman_ford(g["n"], w)
    return "strongly-connected" if all(x != float("inf") for row in d for x in row) else "not-strongly-connected"


def run(ctx):
    import concurrent.futures as cf
    exe = rc.harness()
    work = common.tmpdir("c25")
    evals = judged = nontriv = 0
    bad, samples, done, skipped = [], [], [], []
    exhaustive = True
    # the budget counts exploration time: Ctx's clock started before bin/check (re)built libsimgrid
    deadline = common.Deadline(float(os.environ.get("VERIF_BUDGET_S") or (150 if ctx.quick else 1200)))
    pool = cf.ProcessPoolExecutor(max_workers=common.NCPU)
    rate = None          # graphs per second measured on the last sizeable bound (the machine is shared: it varies a lot)
    for name, kind, payload in bounds_for(ctx):
        hint = SIZE_HINT.get(name.split(",")[0] + "/" + str(len(payload[1]) if kind == "space" else 0))
        too_long = bool(done and rate and hint and hint / rate > deadline.left())
        if done and (deadline.over() or deadline.left() < 15 or too_long):      # the first bound always runs
            exhaustive = False
            skipped.append(name + (" (estimated %d s at %.0f graphs/s, %d s left)" % (hint / rate, rate, deadline.left()) if too_long else ""))
            continue
        t0 = time.time()
        if kind == "space":
            n, states, want, depth = payload
            pref = Space(n, states, want).shard_prefixes(depth)
            random.Random(ctx.seed).shuffle(pref)
            nsh = min(len(pref), common.NCPU * 4)
            args = [(exe, work, "s%d" % i, kind, (n, states, want, pref[i::nsh])) for i in range(nsh)]
        else:
            nsh = min(len(payload), common.NCPU)
            args = [(exe, work, "s%d" % i, kind, payload[i::nsh]) for i in range(nsh)]
        be = 0
        for e, j, nt, b, smp in pool.map(_worker, args):
            evals += e
            be += e
            judged += j
            nontriv += nt
            bad += b
            if smp and len(samples) < 10:
                samples.append(smp)
        done.append({"bound": name, "graphs": be, "wall_s": round(time.time() - t0, 1)})
        if be >= 2000:
            rate = be / max(1e-3, time.time() - t0)
        common.log("C25 bound done: %s (%d graphs, %.1fs)" % (name, be, done[-1]["wall_s"]))
    pool.shutdown()
    groups = {}
    for g, p in bad:
        groups.setdefault((p[0], p[1], graph_class(g)), []).append((g, p))
    violations = []
    for (rule, kind, cls), items in sorted(groups.items()):
        # smallest graph first; one-way declarations before symmetrical ones so that quick and thorough pick the same representative
        items.sort(key=lambda it: (it[0]["n"], len(it[0]["decl"]), sum(x[3] for x in it[0]["decl"]),
                                   sum(1 for x in it[0]["decl"] if x[0] == "s"), graph_str(it[0])))
        g, p = items[0]
        key = "C25 %s rule=%s class=%s min=[%s]" % (kind, rule, cls, graph_str(g))
        what = "%s in zone %s on pair %s: %s; %d graph(s) of this class fail this rule" % (rule, kind, p[2], p[3], len(items))
        violations.append(common.Violation(key, what, {"graph": g, "signature": signature(g, p),
                                                        "others": [graph_str(x) for x, _ in items[1:30]]}))

    def rerun(case):
        g = case["graph"]
        g = {"n": g["n"], "decl": [tuple(d) for d in g["decl"]]}
        r = run_graphs(exe, [g], work, "solo%d" % os.getpid(), per_engine=1)[0]
        sigs = [signature(g, p) for p in r[3]]
        return case["signature"] if case["signature"] in sigs else (sigs[0] if sigs else None)
    violations = rc.confirm(ctx, violations, rerun)
    shutil.rmtree(work, ignore_errors=True)
    if nontriv < 2 and not violations:
        common.log("C25: vacuous run (%d non-trivial graphs)" % nontriv)
        sys.exit(2)
    cov = {"evaluations": evals, "distinct_nontrivial": nontriv,
           "rule": "one evaluation = one digraph (one representative per isomorphism class, smallest code under node "
                   "permutations) declared in a Floyd, a Dijkstra, two DijkstraCache and a Full zone with all ordered pairs "
                   "routed (cache zone asked twice, second cache zone asked in reverse source order); non-trivial = for some "
                   "pair the fewest-links distance is strictly smaller than the link count of every fewest-hops path, i.e. "
                   "the algorithm has to prefer more hops",
           "samples": samples, "exhaustive": exhaustive, "route_answers_judged": judged, "bounds_completed": done,
           "bounds_not_started": skipped, "failing_graphs": len(bad)}
    assumptions = ["nodes are hosts; self routes (src == dst) are not judged", "a pair without any path may be refused (exception) or "
                   "answered with an empty route; a Full zone is only judged on declared pairs",
                   "link names identify the declared one-hop route they belong to (unique per declaration)"]
    common.finish(ctx, "exploration", cov, assumptions, violations, engine="E6 routex")


def replay(ctx, case):
    exe = rc.harness()
    work = common.tmpdir("c25r")
    c = case["case"]
    g = {"n": c["graph"]["n"], "decl": [tuple(d) for d in c["graph"]["decl"]]}
    print("replaying " + graph_str(g))
    print("--- case text\n" + case_text([("G0", g)]))
    r = run_graphs(exe, [g], work, "replay", per_engine=1)[0]
    shutil.rmtree(work, ignore_errors=True)
    if r[3]:
        for p in r[3]:
            print("observed: " + signature(g, p))
        print("recorded: " + c["signature"])
        return 1
    print("no violation on replay (%d answers judged)" % r[1])
    return 0
