"""C01 — simulations are reproducible, whatever the address-space layout (engine E4 `sim`, differential by statement).

Programs: lib/simalpha.py families (activities, async, locks, condvar, lifecycle, mixed: every activity kind of the
statement) enumerated completely per bound (odometer, canonical forms).  Every program is run 4 times, each in a
different exec'd process: ASLR on, ASLR on again, `setarch -R` (ASLR off), `setarch -R` + 1 MiB of heap pre-allocation
(every later allocation shifted).  The four logs (all actor records with values and %.17g dates, all signal records:
time advances, terminations, activity start/completion signals, deadlock) must be byte-identical.
"""
import json, os, sys, platform, time
import common, simlib, simalpha

VARIANTS = [("aslr-1", (), None), ("aslr-2", (), None), ("no-aslr", ("setarch", platform.machine(), "-R"), None),
            ("no-aslr+heap-shift", ("setarch", platform.machine(), "-R"), 1 << 20)]
K = 32


def bounds(tier):
    fams = [f for f in simalpha.FAMILIES if f != "core"]
    b = [("all families A=2 K=1", [c for f in fams for c in simalpha.enum(f, 2, 1)]),
         ("core (P, G, CS, SA, kill) A=2 K=2", simalpha.enum("core", 2, 2)),
         ("condvar + mixed A=3 K=1", [c for f in ("condvar", "mixed") for c in simalpha.enum(f, 3, 1)])]
    if tier == "quick":
        return b
    b.append(("all families A=3 K=1", [c for f in fams if f not in ("condvar", "mixed") for c in simalpha.enum(f, 3, 1)]))
    for f in ("condvar", "async", "mixed", "activities", "lifecycle", "locks"):
        b.append(("%s A=2 K=2" % f, simalpha.enum(f, 2, 2)))
    b.append(("all families A=4 K=1", [c for f in fams for c in simalpha.enum(f, 4, 1)]))
    b.append(("locks A=3 K=2 (s1, CS, L, U, SA, SR)", [c for c in simalpha.enum("locks", 3, 2)
                                                     if all(op[0] not in ("TL", "ST") for ops in c["prog"] for op in ops)]))
    return b


def build_prog(case):
    p = simalpha.build_prog(case)
    return p


def observable(text):
    return "\n".join(l for l in text.splitlines() if l[:2] in ("A ", "S ") or l.startswith("END"))


def run_variant(binary, packs, v, tag):
    name, wrapper, prealloc = v
    ps = []
    for p in packs:
        q = dict(p, signals=True)
        if prealloc:
            q["prealloc"] = prealloc
        ps.append(q)
    outs = simlib.run_many(binary, ps, wrapper=wrapper, tag=tag, raw=True)
    return [(observable(t), st) for (t, st) in outs]


def coinciding(obs):
    dates = {}
    for n, incs in obs["actors"].items():
        for log in incs:
            for (e, v, c) in log:
                if c > 0:
                    dates.setdefault(c, set()).add(n)
    return any(len(s) >= 2 for s in dates.values())


def alone(binary, case, rounds=2):
    """the 4 variants of one program, alone, `rounds` times: list of (variant, observable text, status)"""
    out = []
    prog = build_prog(case)
    for r in range(rounds):
        for (name, wrapper, prealloc) in VARIANTS:
            q = dict(prog, signals=True)
            if prealloc:
                q["prealloc"] = prealloc
            t, st = simlib.run_one(binary, q, wrapper=wrapper, raw=True)
            out.append((name, observable(t), st))
    return out


def run(ctx):
    # packs of 32 programs under busy-waiting worker threads burn CPU on a loaded machine: give the watchdog room
    os.environ.setdefault("SIM_CPU_LIMIT", "90")
    binary = simlib.build()
    if os.system("setarch %s -R true" % platform.machine()) != 0:
        common.log("C01: setarch -R is not usable here")
        raise SystemExit(2)
    evaluations, programs, done, per = 0, 0, [], {}
    nontrivial = set()
    suspects, samples = [], []
    exhaustive, rate = True, None
    for (name, cases) in bounds(ctx.tier):
        if ctx.deadline.left() < 30 and done:
            exhaustive = False
            break
        if not ctx.quick and rate and len(cases) > 1000 and len(cases) / rate * 2.0 > ctx.deadline.left() - 30:
            exhaustive = False
            break
        t_b = time.time()
        progs_ = [build_prog(c) for c in cases]
        groups = [list(range(i, min(i + K, len(cases)))) for i in range(0, len(cases), K)]
        packs = [simlib.pack([progs_[i] for i in g]) for g in groups]
        jobs = []
        for (vn, wrapper, prealloc) in VARIANTS:
            for p in packs:
                q = dict(p, signals=True)
                if prealloc:
                    q["prealloc"] = prealloc
                jobs.append((q, (), wrapper))
        outs = simlib.run_jobs(binary, jobs)          # every (layout, pack) in its own exec'd process
        res = [[(observable(t), st) for (t, st) in outs[k * len(packs):(k + 1) * len(packs)]] for k in range(len(VARIANTS))]
        evaluations += len(cases) * len(VARIANTS)
        programs += len(cases)
        nd = 0
        for gi, g in enumerate(groups):
            ref = res[0][gi]
            if ref[1] == 0:
                for i, u in zip(g, simlib.unpack(simlib.parse_output(ref[0], 0), len(g))):
                    if coinciding(u):
                        nontrivial.add(json.dumps(cases[i]))
            if any(res[v][gi] != ref for v in range(1, len(VARIANTS))):
                nd += 1
                # which programs of the pack differ?
                per_prog = []
                for v in range(len(VARIANTS)):
                    t, st = res[v][gi]
                    per_prog.append([json.dumps(u["actors"], sort_keys=True) if st == 0 else "status %s" % st
                                     for u in simlib.unpack(simlib.parse_output(t, st), len(g))] if st == 0 else ["status %s" % st] * len(g))
                for k, i in enumerate(g):
                    if len({per_prog[v][k] for v in range(len(VARIANTS))}) > 1:
                        suspects.append((cases[i], [cases[j] for j in g]))
                if not any(len({per_prog[v][k] for v in range(len(VARIANTS))}) > 1 for k in range(len(g))):
                    suspects.append((cases[g[0]], [cases[j] for j in g]))     # only the shared signal log differs
        per[name] = {"programs": len(cases), "packs": len(groups), "packs_differing": nd, "t_s": round(time.time() - ctx.t0, 1)}
        common.log("C01 %s: %d programs x %d layouts, %d packs differ, t=%.0fs" % (name, len(cases), len(VARIANTS), nd, time.time() - ctx.t0))
        done.append(name)
        if len(cases) >= 300:
            rate = len(cases) / max(0.5, time.time() - t_b)
        if cases and len(samples) < 4:
            c = cases[len(cases) // 2]
            samples.append({"case": simalpha.text(c), "actors": build_prog(c)["actors"]})
    simlib.cleanup("c01")
    vio = []
    seen = set()
    for case, packcases in suspects[:12]:
        key = "prog=%s => logs differ between address-space layouts" % simalpha.text(case)
        if key in seen:
            continue
        seen.add(key)
        runs = alone(binary, case, rounds=3)
        distinct = {(t, st) for (_, t, st) in runs}
        if len(distinct) > 1:
            by = {}
            for (n, t, st) in runs:
                by.setdefault((t, st), []).append(n)
            vio.append(common.Violation(key, "run alone 3 x 4 layouts: %d distinct logs (%s)" % (
                len(distinct), "; ".join(",".join(v) for v in by.values())), {"case": case, "program": build_prog(case)}))
        else:
            # differs only in company (or only now and then): re-run its pack under 48 fresh ASLR layouts + the fixed ones
            packp = dict(simlib.pack([build_prog(c) for c in packcases]), signals=True)
            jobs = [(packp, (), ()) for _ in range(48)] + [(packp, (), VARIANTS[2][1]), (dict(packp, prealloc=1 << 20), (), VARIANTS[3][1])]
            outs = [(observable(t), st) for (t, st) in simlib.run_jobs(binary, jobs)]
            if len(set(outs)) > 1:
                major = max(set(outs), key=outs.count)
                key2 = "pack-of=%s => logs differ between address-space layouts" % simalpha.text(packcases[0])
                vio.append(common.Violation(key2, "the pack of %d programs gives %d distinct logs over 50 layouts (%d runs differ from "
                                            "the most frequent log: depends on the layout, intermittently)" % (
                                                len(packcases), len(set(outs)), sum(1 for o in outs if o != major)),
                                            {"case": case, "pack": packcases}))
            else:
                common.log("C01: difference did not reproduce over 50 layouts (harness bug?): %s" % key)
                raise SystemExit(2)
    coverage = {
        "evaluations": evaluations, "distinct_nontrivial": len(nontrivial),
        "rule": "every enumerated program run under 4 address-space layouts (evaluations = programs x 4); non-trivial = distinct "
                "programs in whose run at least two different actors log an event at the same date > 0 (an order the kernel "
                "has to choose)",
        "samples": samples, "exhaustive": exhaustive, "bounds_completed": done, "per_bound": per, "programs": programs,
        "layouts": [v[0] for v in VARIANTS],
    }
    if len(nontrivial) < 2:
        common.log("C01: vacuous run")
        raise SystemExit(2)
    common.finish(ctx, "exploration", coverage,
                  ["differential by statement: the same binary, program and configuration under different address-space layouts",
                   "programs are packed by 32 in one simulation (own hosts, shared objects prefixed); every layout runs the same packs",
                   "the interpreter never prints an address; only A/S/END lines and the exit status are compared"],
                  vio, engine="sim")


def replay(ctx, rf):
    os.environ.setdefault("SIM_CPU_LIMIT", "90")
    binary = simlib.build()
    case = rf["case"]["case"]
    if rf["case"].get("pack"):
        packp = dict(simlib.pack([build_prog(c) for c in rf["case"]["pack"]]), signals=True)
        outs = [(observable(t), st) for (t, st) in simlib.run_jobs(binary, [(packp, (), ()) for _ in range(48)])]
        print("pack of %d programs: 48 ASLR runs, %d distinct logs" % (len(rf["case"]["pack"]), len(set(outs))))
        return 0 if len(set(outs)) == 1 else 1
    runs = alone(binary, case, rounds=2)
    distinct = {(t, st) for (_, t, st) in runs}
    print("program %s: %d runs, %d distinct logs" % (simalpha.text(case), len(runs), len(distinct)))
    for (n, t, st) in runs[:4]:
        print("---- %s (status %s)\n%s" % (n, st, t))
    return 0 if len(distinct) == 1 else 1
