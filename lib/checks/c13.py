"""C13 Workflow dependencies are respected  (DESIGN.md §5 group C; engine misc/c13x; level exploration).

Enumerated, bound by bound (bound = number of nodes n; quick n<=4, thorough n<=5 + three fixed ~30-node shapes):
  api   every DAG on n nodes (every edge set over the fixed topological order 0<1<..<n-1) x node kind {Exec, Comm, Io}^n x
        assignment order {B: assigned before start(), A: after start() at the same date, L: one time unit after its last
        predecessor finished}^n, built through the S4U API (full product for n<=3, and for n=4 in thorough; n=4 quick:
        kinds^4 with a common order + orders^4 with a common kind; n=5: 18 uniform / rotated kind and order patterns)
  json  every DAG of n computations x every subset of edges carrying a transfer, written as a wfcommons JSON file and loaded
        with create_DAG_from_json; variants M (machines in the file), A (no machine, everything assigned after loading), L (as
        A but every computation assigned one time unit after its last predecessor finished)
  dax   the same DAGs as DAX files (control dependencies / files produced and consumed), create_DAG_from_DAX, variants A, L
        (the executor compiles /repo/src/dag/loaders.cpp into itself to be able to clear the DAX loader's static job/file
        tables between two cases); DOT is skipped (no graphviz).
Every activity has its own host / link / disk and a dyadic duration, so every date is an exactly representable double.

Oracle (longest-path recurrence, independent of SimGrid): start(v) = max(assignment date(v), max finish(pred(v))),
finish(v) = start(v) + duration(v); every activity completes exactly once in state FINISHED, its on_start / on_completion
dates and get_start_time / get_finish_time equal the expected ones (==), and at the instant an activity's on_start fires
every one of its predecessors is in state FINISHED (read by the executor in the callback).
"""
import os, sys, json, subprocess, time, shutil, itertools
import common

DUR = [1.0, 2.0, 1.5, 0.5, 3.0]
TDUR = [0.5, 1.0, 0.25]
SPEED = {"api": 1073741824.0, "json": 1073741824.0, "dax": 4200000000.0}
BW = 1048576.0


def pairs(n):
    return [(i, j) for i in range(n) for j in range(i + 1, n)]


# ------------------------------------------------------------------------------------------------ reference
def schedule(order, preds, dur, late):
    """order: names in a topological order; late: set of names assigned one unit after their last predecessor finished.
    -> start, finish, assignment date (relative to the beginning of the case)"""
    start, finish, date = {}, {}, {}
    for v in order:
        ready = max([finish[p] for p in preds[v]] + [0.0])
        date[v] = ready + 1.0 if v in late else 0.0
        start[v] = max(ready, date[v])
        finish[v] = start[v] + dur[v]
    return start, finish, date


class Spec:
    """one case: what to give the executor and what to expect"""
    __slots__ = ("id", "tier", "lines", "order", "preds", "start", "finish", "nontrivial", "files", "desc")


def api_spec(n, mask, kinds, modes, durs=None, cid=None):
    ps = pairs(n)
    names = ["v%d" % i for i in range(n)]
    preds = {v: [] for v in names}
    edges = []
    for k, (i, j) in enumerate(ps):
        if mask >> k & 1:
            preds[names[j]].append(names[i])
            edges.append((names[i], names[j]))
    return api_spec_g(names, preds, edges, kinds, modes, durs or DUR, cid or "a%d.m%d.%s.%s" % (n, mask, kinds, modes))


def api_spec_g(names, preds, edges, kinds, modes, durs, cid):
    n = len(names)
    dur = {names[i]: durs[i % len(durs)] for i in range(n)}
    late = {names[i] for i in range(n) if modes[i] == "L"}
    s = Spec()
    s.id, s.tier, s.order, s.preds, s.files = cid, "api", names, preds, {}
    s.start, s.finish, date = schedule(names, preds, dur, late)
    lines = ["case %s api" % cid]
    for i, v in enumerate(names):
        k = kinds[i]
        amount = dur[v] * (SPEED["api"] if k == "E" else BW)
        res = "n%d m%d" % (i, i) if k == "C" else "n%d" % i
        lines.append("node %s %s %.17g %s %.17g %s" % (v, k, amount, modes[i], date[v], res))
    lines += ["edge %s %s" % e for e in edges]
    lines.append("end")
    s.lines = lines
    s.nontrivial = nontrivial(s, date)
    s.desc = {"tier": "api", "nodes": names, "kinds": kinds, "orders": modes, "edges": ["%s>%s" % e for e in edges]}
    return s


def nontrivial(s, date):
    """some node whose start is decided by a real max: >=2 predecessors finishing at different dates, or an assignment
    date later than the last predecessor's finish while it has predecessors"""
    for v in s.order:
        f = {s.finish[p] for p in s.preds[v]}
        if len(f) >= 2 or (s.preds[v] and date.get(v, 0.0) > max(f)):
            return True
    return False


def loader_graph(n, mask, tmask):
    """computations c0..c(n-1); edge k (i,j) present if mask bit k; carries a transfer if tmask bit (index among present
    edges) -> (edges list [(i, j, transfer?)])"""
    out, b = [], 0
    for k, (i, j) in enumerate(pairs(n)):
        if mask >> k & 1:
            out.append((i, j, bool(tmask >> b & 1)))
            b += 1
    return out


def json_spec(n, edges, variant, d, cid, durs=None):
    durs = durs or DUR
    names = ["c%d" % i for i in range(n)]
    dur = {names[i]: durs[i % len(durs)] for i in range(n)}
    preds = {v: [] for v in names}
    tasks = {v: {"name": v, "type": "compute", "parents": [], "runtimeInSeconds": dur[v] * SPEED["json"]} for v in names}
    transfers, assigns = [], []
    for (i, j, tr) in edges:
        if tr:
            t = "t%d_%d" % (i, j)
            dur[t] = TDUR[(i + j) % 3]
            preds[t] = [names[i]]
            preds[names[j]].append(t)
            tasks[names[j]]["parents"].append(t)
            tt = {"name": t, "type": "transfer", "parents": [names[i]], "writtenBytes": dur[t] * BW}
            if variant == "M":
                tt["machine"] = "n%d" % j
            transfers.append((i, j, t, tt))
        else:
            preds[names[j]].append(names[i])
            tasks[names[j]]["parents"].append(names[i])
    # the loader reads the source of a transfer from its parent's host while parsing: a computation that feeds a transfer
    # always has its machine in the file
    infile = set(range(n)) if variant == "M" else {a for (a, b, t, tt) in transfers}
    for i in sorted(infile):
        tasks[names[i]]["machine"] = "n%d" % i
    # file order = a topological order: computation i, then the transfers leaving it
    order, tl = [], []
    for i, v in enumerate(names):
        order.append(v)
        tl.append(tasks[v])
        for (a, b, t, tt) in transfers:
            if a == i:
                order.append(t)
                tl.append(tt)
    topo = toposort(order, preds)
    late = {names[i] for i in range(n) if i not in infile} if variant == "L" else set()
    s = Spec()
    s.id, s.tier, s.order, s.preds = cid, "json", topo, preds
    s.start, s.finish, date = schedule(topo, preds, dur, late)
    path = os.path.join(d, cid + ".json")
    s.files = {path: json.dumps({"name": cid, "schemaVersion": "1.4", "workflow": {"tasks": tl, "machines": [{"nodeName": "n%d" % i} for i in range(n)]}})}
    lines = ["case %s json %s" % (cid, path)]
    if variant != "M":
        for i, v in enumerate(names):
            if i not in infile:
                lines.append("assign %.17g %s n%d" % (date[v], v, i))
        for (a, b, t, tt) in transfers:
            lines.append("assign 0 %s - n%d" % (t, b))      # the loader has set the source from the parent's machine
    lines += ["edge %s %s" % (p, v) for v in topo for p in preds[v]]
    lines.append("end")
    s.lines = lines
    s.nontrivial = nontrivial(s, date)
    s.desc = {"tier": "json", "variant": variant, "computations": n, "edges": ["c%d%sc%d" % (i, "=>" if tr else ">", j) for i, j, tr in edges]}
    return s


def toposort(order, preds):
    done, out = set(), []
    pending = list(order)
    while pending:
        for v in pending:
            if all(p in done for p in preds[v]):
                out.append(v)
                done.add(v)
                pending.remove(v)
                break
        else:
            raise ValueError("cycle")
    return out


def dax_spec(n, edges, variant, d, cid, durs=None):
    durs = durs or DUR
    names = ["j%d@t" % i for i in range(n)]
    dur = {names[i]: durs[i % len(durs)] for i in range(n)}
    dur["root"] = dur["end"] = 0.0
    preds = {v: [] for v in names}
    uses = {i: [] for i in range(n)}
    children = {}
    comms = []
    for (i, j, tr) in edges:
        if tr:
            f = "f%d_%d" % (i, j)
            size = TDUR[(i + j) % 3] * BW
            t = "%s_%s_%s" % (names[i], f, names[j])
            dur[t] = TDUR[(i + j) % 3]
            preds[t] = [names[i]]
            preds[names[j]].append(t)
            uses[i].append((f, "output", size))
            uses[j].append((f, "input", size))
            comms.append((i, j, t))
        else:
            preds[names[j]].append(names[i])
            children.setdefault(j, []).append(i)
    has_succ = {p for v in preds for p in preds[v]}
    preds["root"] = []
    for v in names:
        if not preds[v]:
            preds[v] = ["root"]
    preds["end"] = [v for v in names if v not in has_succ]
    topo = toposort(["root"] + names + [c[2] for c in comms] + ["end"], preds)
    late = set(names) if variant == "L" else set()
    s = Spec()
    s.id, s.tier, s.order, s.preds = cid, "dax", topo, preds
    s.start, s.finish, date = schedule(topo, preds, dur, late)
    x = ['<?xml version="1.0" encoding="UTF-8"?>',
         '<adag xmlns="http://pegasus.isi.edu/schema/DAX" version="2.1" count="1" index="0" name="%s" jobCount="%d" fileCount="0" childCount="%d">' % (cid, n, len(children))]
    for i in range(n):
        x.append('  <job id="j%d" namespace="v" name="t" version="1.0" runtime="%.17g">' % (i, durs[i % len(durs)]))
        for f, link, size in uses[i]:
            x.append('    <uses file="%s" link="%s" register="true" transfer="true" optional="false" type="data" size="%d"/>' % (f, link, size))
        x.append('  </job>')
    for j in sorted(children):
        x.append('  <child ref="j%d">' % j)
        for i in children[j]:
            x.append('    <parent ref="j%d"/>' % i)
        x.append('  </child>')
    x.append('</adag>')
    path = os.path.join(d, cid + ".xml")
    s.files = {path: "\n".join(x) + "\n"}
    lines = ["case %s dax %s" % (cid, path), "assign 0 root m0", "assign 0 end m1"]
    for i, v in enumerate(names):
        lines.append("assign %.17g %s n%d" % (date[v], v, i))
    for (a, b, t) in comms:
        lines.append("assign 0 %s n%d n%d" % (t, a, b))
    lines += ["edge %s %s" % (p, v) for v in topo for p in preds[v]]
    lines.append("end")
    s.lines = lines
    s.nontrivial = nontrivial(s, date)
    s.desc = {"tier": "dax", "variant": variant, "jobs": n, "edges": ["j%d%sj%d" % (i, "=>" if tr else ">", j) for i, j, tr in edges]}
    return s


# ------------------------------------------------------------------------------------------------ enumeration
def kind_order_patterns(n, full):
    """full: kinds^n x orders^n. Else a family that still shows every kind and every order at every position:
    n<=4: kinds^n x common order + orders^n x common kind; n>=5: uniform and rotated patterns (18)."""
    if full:
        return [("".join(k), "".join(m)) for k in itertools.product("ECI", repeat=n) for m in itertools.product("BAL", repeat=n)]
    out = []
    if n <= 4:
        for k in itertools.product("ECI", repeat=n):
            for m in "BAL":
                out.append(("".join(k), m * n))
        for m in itertools.product("BAL", repeat=n):
            for k in "ECI":
                out.append((k * n, "".join(m)))
    else:
        for k in "ECI":
            for m in "BAL":
                out.append((k * n, m * n))
        for r in range(3):
            for q in range(3):
                out.append(("".join("ECI"[(i + r) % 3] for i in range(n)), "".join("BAL"[(i + q) % 3] for i in range(n))))
    res, seen = [], set()
    for p in out:
        if p not in seen:
            seen.add(p)
            res.append(p)
    return res


def shard_specs(job, d):
    """job = (tier, n, mask, full) -> list of Spec"""
    tier, n, mask, full = job
    if tier == "api":
        return [api_spec(n, mask, k, m) for k, m in kind_order_patterns(n, full)]
    ne = bin(mask).count("1")
    out = []
    for tmask in range(1 << ne):
        edges = loader_graph(n, mask, tmask)
        if tier == "json":
            for v in "MAL":
                out.append(json_spec(n, edges, v, d, "j%d.m%d.t%d.%s" % (n, mask, tmask, v)))
        else:
            for v in "AL":
                out.append(dax_spec(n, edges, v, d, "d%d.m%d.t%d.%s" % (n, mask, tmask, v)))
    return out


def big_shapes(d):
    """chain / fork-join / layered with ~30 nodes, through the three paths"""
    out = []
    durs = [0.5, 1.0, 1.5, 2.0]
    shapes = {}
    N = 30
    shapes["chain30"] = (N, [(i, i + 1) for i in range(N - 1)])
    shapes["forkjoin30"] = (N, [(0, i) for i in range(1, N - 1)] + [(i, N - 1) for i in range(1, N - 1)])
    lay = [list(range(l * 6, l * 6 + 6)) for l in range(5)]
    shapes["layered5x6"] = (N, [(a, b) for l in range(4) for a in lay[l] for b in lay[l + 1]])
    for name, (n, es) in shapes.items():
        names = ["v%d" % i for i in range(n)]
        preds = {v: [] for v in names}
        for a, b in es:
            preds[names[b]].append(names[a])
        kinds = "".join("ECI"[i % 3] for i in range(n))
        for off in range(3):
            modes = "".join("BAL"[(i + off) % 3] for i in range(n))
            out.append(api_spec_g(names, preds, [(names[a], names[b]) for a, b in es], kinds, modes, durs, "big.api.%s.%d" % (name, off)))
        edges = [(a, b, (a + b) % 2 == 0) for a, b in sorted(es)]
        for v in "MAL":
            out.append(json_spec(n, edges, v, d, "big.json.%s.%s" % (name, v), durs))
        for v in "AL":
            out.append(dax_spec(n, edges, v, d, "big.dax.%s.%s" % (name, v), durs))
    return out


# ------------------------------------------------------------------------------------------------ running and checking

def _run(cmd):
    """subprocess.run, retried while libsimgrid is being relinked by somebody else's bin/check (loader error, exit 127)"""
    for attempt in range(12):
        r = subprocess.run(cmd, stdout=subprocess.PIPE, stderr=subprocess.PIPE, text=True)
        if r.returncode != 127 or "libsimgrid" not in r.stderr:
            return r
        time.sleep(10)
    return r

def execute(exe, specs, d, tag):
    """-> {case id: [output lines]}, {crashed id: status}"""
    by_tier = {}
    for s in specs:
        by_tier.setdefault(s.tier, []).append(s)
    outs, crashed = {}, {}
    for tier, ss in by_tier.items():
        for s in ss:
            for p, txt in s.files.items():
                open(p, "w").write(txt)
        cf = os.path.join(d, "cases-%s-%s-%d.txt" % (tag, tier, os.getpid()))
        open(cf, "w").write("\n".join("\n".join(s.lines) for s in ss) + "\n")
        first = 0
        while first < len(ss):
            cmd = [exe, cf, "%.17g" % SPEED[tier], str(first), "--log=root.thres:critical"]
            r = _run(cmd)
            cur, n_done = None, first
            for line in r.stdout.splitlines():
                if line.startswith("case "):
                    cur = line.split()[1]
                    outs[cur] = [line]
                elif cur is not None:
                    outs[cur].append(line)
                    if line.startswith("end "):
                        n_done += 1
                        cur = None
            if r.returncode == 0 and n_done >= len(ss):
                break
            if r.returncode == 0 or r.returncode == 3:
                common.log("c13x failed (exit %s, %d/%d cases): %s" % (r.returncode, n_done, len(ss), r.stderr[-1500:]))
                raise SystemExit(2)
            # the process died inside case n_done (batch mode): report it, go on after it
            crashed[ss[n_done].id] = r.returncode
            outs.pop(ss[n_done].id, None)
            first = n_done + 1
        os.unlink(cf)
        for s in ss:
            for p in s.files:
                os.unlink(p)
    return outs, crashed


def check(s, lines):
    """-> list of (failure class, detail); plus the number of duplicated on_start signals"""
    fails, dup = [], 0
    if not lines or not lines[-1].startswith("end "):
        return [("no-result", "incomplete output %s" % lines[-3:])], 0
    t0 = float(lines[0].split()[2])
    st, fi, z = {}, {}, {}
    for l in lines[1:-1]:
        w = l.split()
        if w[0] == "S":
            if w[1] in st:
                dup += 1
            else:
                st[w[1]] = float(w[2]) - t0
                if int(w[3]):
                    fails.append(("started-before-predecessor", "%s started while %s of its predecessors %s were not FINISHED" % (w[1], w[3], s.preds.get(w[1]))))
        elif w[0] == "F":
            if w[1] in fi:
                fails.append(("completed-twice", "%s completed twice" % w[1]))
            fi[w[1]] = (w[2], float(w[3]) - t0)
        elif w[0] == "Z":
            z[w[1]] = (w[2], float(w[3]) - t0, float(w[4]) - t0)
        elif w[0] == "X":
            fails.append(("missing-activity", l))
    exp = set(s.order)
    if set(z) != exp:
        fails.append(("activity-set", "activities %s, expected %s" % (sorted(z), sorted(exp))))
    for v in s.order:
        if v not in fi or fi[v][0] != "FINISHED" or z.get(v, ("",))[0] != "FINISHED":
            fails.append(("not-finished", "%s: completion %s, final %s (expected to finish at %g)" % (v, fi.get(v), z.get(v), s.finish[v])))
            continue
        if v not in st or st[v] != s.start[v] or z[v][1] != s.start[v]:
            cls = "start-too-early" if st.get(v, 1e300) < s.start[v] else "start-too-late"
            fails.append((cls, "%s started at %s (get_start_time %s), expected %g = max(assignment, finish of %s)"
                          % (v, st.get(v), z[v][1], s.start[v], s.preds[v])))
        elif fi[v][1] != s.finish[v] or z[v][2] != s.finish[v]:
            fails.append(("finish-date", "%s finished at %s (get_finish_time %s), expected %g" % (v, fi[v][1], z[v][2], s.finish[v])))
    return fails, dup


_G = {}


def build():
    return common.build_harness("c13x", ["misc/c13/c13x.cpp"], extra=["-I" + common.REPO + "/src/dag"])


def _job(job):
    d, exe = _G["d"], _G["exe"]
    specs = shard_specs(job, d) if job[0] != "big" else big_shapes(d)
    outs, crashed = execute(exe, specs, d, "%s%d_%d" % tuple(job[:3]))
    res = {"n": len(specs), "nontrivial": 0, "dup": 0, "fails": {}, "sample": None, "by_tier": {}}
    for s in specs:
        res["by_tier"][s.tier] = res["by_tier"].get(s.tier, 0) + 1
        if s.nontrivial:
            res["nontrivial"] += 1
        if s.id in crashed:
            fails, dup = [("crash", "the process died (status %s)" % crashed[s.id])], 0
        else:
            fails, dup = check(s, outs.get(s.id))
        res["dup"] += dup
        for cls, detail in fails:
            k = (s.tier, cls)
            if k not in res["fails"]:
                res["fails"][k] = [0, s.id, detail, s.desc, job]
            res["fails"][k][0] += 1
    mid = specs[len(specs) // 2]
    res["sample"] = dict(mid.desc, expected_start=mid.start, expected_finish=mid.finish)
    return res


def find_spec(job, cid, d):
    for s in (shard_specs(job, d) if job[0] != "big" else big_shapes(d)):
        if s.id == cid:
            return s


def run_one(exe, d, job, cid):
    s = find_spec(tuple(job), cid, d)
    outs, crashed = execute(exe, [s], d, "one")
    if cid in crashed:
        return s, outs.get(cid), [("crash", "the process died (status %s)" % crashed[cid])]
    return s, outs.get(cid), check(s, outs.get(cid))[0]


def jobs_for(n, full):
    ne = n * (n - 1) // 2
    return [(t, n, m, full) for t in ("api", "json", "dax") for m in range(1 << ne)]


def count_cases(jobs):
    c = 0
    for t, n, m, full in jobs:
        if t == "big":
            c += 24
        elif t == "api":
            c += len(kind_order_patterns(n, full))
        else:
            c += (3 if t == "json" else 2) << bin(m).count("1")
    return c


def run(ctx):
    exe = build()
    # compiling the executor (it includes the loaders and nlohmann/json) can take a minute on a loaded machine: the
    # exploration budget starts after it
    dl = common.Deadline(max(ctx.deadline.left(), 0.8 * (ctx.deadline.end - ctx.deadline.t0)))
    d = common.tmpdir("c13")
    _G["d"], _G["exe"] = d, exe
    N = 4 if ctx.quick else 5
    tot = {"n": 0, "nontrivial": 0, "dup": 0, "fails": {}, "samples": [], "by_tier": {}, "by_bound": {}}
    done, times, rate = 0, {}, 0.0005
    # stages: a bound (number of nodes) is completed for the three paths or not started
    stages = [("3", [j for n in (1, 2, 3) for j in jobs_for(n, True)]), ("4", jobs_for(4, not ctx.quick))]
    if not ctx.quick:
        stages += [("big", [("big", 0, 0, True)]), ("5", jobs_for(5, False))]
    try:
        for b, jobs in stages:
            ncases = count_cases(jobs)
            if dl.left() < 5 + ncases * rate * (4 if b == "5" else 1):     # n=5 cases cost ~4x an n=4 case (measured)
                break
            t0 = time.time()
            if ctx.seed:
                import random
                random.Random(ctx.seed).shuffle(jobs)
            parts = common.pmap(_job, jobs, chunksize=1 if len(jobs) < 256 else 4)
            nb = 0
            for r in parts:
                tot["n"] += r["n"]
                nb += r["n"]
                tot["nontrivial"] += r["nontrivial"]
                tot["dup"] += r["dup"]
                for t, c in r["by_tier"].items():
                    tot["by_tier"][t] = tot["by_tier"].get(t, 0) + c
                for k, v in r["fails"].items():
                    if k not in tot["fails"]:
                        tot["fails"][k] = v
                    else:
                        tot["fails"][k][0] += v[0]
            assert nb == ncases, (nb, ncases)
            tot["samples"] += [parts[0]["sample"], parts[-1]["sample"]]
            tot["by_bound"]["n<=3" if b == "3" else b] = nb
            last = time.time() - t0
            times["n<=3" if b == "3" else b] = round(last, 2)
            if nb >= 20000:
                rate = last / nb
            done = b
        violations = []
        for (tier, cls), (cnt, cid, detail, desc, job) in sorted(tot["fails"].items()):
            a = run_one(exe, d, job, cid)[2]
            b_ = run_one(exe, d, job, cid)[2]
            if a != b_ or cls not in [c for c, _ in a]:
                common.log("C13: failure %s/%s on %s does not reproduce alone (%s / %s): harness bug" % (tier, cls, cid, a, b_))
                raise SystemExit(2)
            key = "C13 %s %s case=%s" % (tier, cls, cid)
            violations.append(common.Violation(key, "%s [%s; %d failures of this class in this tier, this is the first case]" % (detail, json.dumps(desc), cnt),
                                               {"job": list(job), "id": cid, "desc": desc}))
    finally:
        shutil.rmtree(d, ignore_errors=True)
    if tot["nontrivial"] < 2:
        common.log("C13: vacuous run")
        raise SystemExit(2)
    full = done == stages[-1][0]
    order = [b for b, _ in stages]
    cov = {"evaluations": tot["n"], "distinct_nontrivial": tot["nontrivial"],
           "rule": "one evaluation = one workflow built and run to completion, all distinct (DAG x kinds x assignment orders, or DAG x "
                   "transfer subset x variant); non-trivial = some node has >=2 predecessors finishing at different dates, or is assigned "
                   "strictly after its last predecessor finished (its start is decided by a real max)",
           "samples": tot["samples"][:6], "exhaustive": full, "bound_completed": done, "bound_target": stages[-1][0],
           "cases_by_tier": tot["by_tier"], "cases_by_bound": tot["by_bound"], "seconds_by_bound": times,
           "duplicate_on_start_signals_ignored": tot["dup"]}
    common.finish(ctx, "exploration", cov,
                  ["every activity has its own host/disk/link, CM02, TCP-gamma 0, no cross-traffic, latency 0: fixed dyadic durations",
                   "several workflows run one after the other in one simulation (dates relative to the beginning of the case); "
                   "the loaders are compiled from /repo/src/dag/loaders.cpp into the executor, which clears the DAX loader's static tables "
                   "after each DAX case; every failure is re-run alone twice in a new process",
                   "API tier: n=4 in quick = kinds^4 x common order + orders^4 x common kind; n=5 = 18 uniform/rotated patterns per DAG (the full product is 60M cases); "
                   "every (kind, order) of a predecessor x (kind, order) of a successor already occurs in the full products of n<=3 (and n=4 in thorough)",
                   "Comm fires on_start twice for host-to-host comms (S4U and kernel level): the first one is used, duplicates are counted",
                   "DOT loader not covered (SimGrid built without graphviz); failures of resources are C10's subject"],
                  violations, engine="misc/c13x")


def replay(ctx, case):
    exe = build()
    d = common.tmpdir("c13")
    try:
        c = case["case"]
        s, lines, fails = run_one(exe, d, c["job"], c["id"])
    finally:
        shutil.rmtree(d, ignore_errors=True)
    print(json.dumps(s.desc))
    print("expected start :", s.start)
    print("expected finish:", s.finish)
    print("\n".join(lines or ["(no output)"]))
    for c_, dt in fails:
        print("  VIOLATED %s :: %s" % (c_, dt))
    return 1 if fails else 0
