"""C04 Mutex semantics: exclusion, FIFO hand-off, ownership, recursion — every interleaving of every small program on the
real kernel (vx) against the reference semantics (rs)."""
import itertools
import common, vxlib, synccheck

def _wf(seq):
    """drop sequences with an unlock that can never do anything (no earlier lock/trylock of that mutex in this actor)"""
    bal = {}
    for op in seq:
        if op[0] in ("lock", "trylock"):
            bal[op[1]] = bal.get(op[1], 0) + 1
        elif op[0] == "unlock":
            if bal.get(op[1], 0) <= 0:
                return False
            bal[op[1]] -= 1
    return True

def gen(mutex, nact, maxops, minops=1):
    alpha = [(o, m) for m in range(len(mutex)) for o in ("lock", "trylock", "unlock")]
    seqs = [s for n in range(minops, maxops + 1) for s in itertools.product(alpha, repeat=n) if _wf(s)]
    def g():
        for combo in itertools.combinations_with_replacement(seqs, nact):
            actors = [list(c) for c in combo]
            if not vxlib.touches(actors, lambda op: op[1]):
                continue
            yield dict(mutex=list(mutex), actors=actors)
    return g

def bounds(ctx):
    b = [("plain-A2K3", gen([0], 2, 3)), ("rec-A2K3", gen([1], 2, 3)), ("plain-A3K2", gen([0], 3, 2)), ("rec-A3K2", gen([1], 3, 2))]
    if not ctx.quick:
        b += [("rec-A2K4", gen([1], 2, 4, 4)), ("plain-A2K4", gen([0], 2, 4, 4)), ("both-A2K3", gen([0, 1], 2, 3, 2)),
              ("rec-A3K3", gen([1], 3, 3, 3)), ("plain-A3K3", gen([0], 3, 3, 3)), ("recrec-A2K3", gen([1, 1], 2, 3, 3))]
    return b

def run(ctx):
    synccheck.run_bounds(ctx, bounds(ctx),
        "all interleavings of all bounded mutex programs on the real kernel, state-by-state conformance with the reference semantics",
        ["MC-mode code paths of s4u::Mutex (lock = ASYNC_LOCK + WAIT); the single-simcall normal-mode path is covered by C14",
         "reference semantics lib/rs.py is the documented S4U semantics (DESIGN.md 5.9)",
         "stateful de-duplication is validated against the stateless walk on every small program of the run"])

replay = synccheck.replay
