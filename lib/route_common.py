"""Shared by C24/C25/C26 (engine E6 routex): harness driver, result parser, sharding, violation confirmation.

The harness (harness/routex/routex.cpp) builds platforms through SimGrid's C++ platform API from a line-based description
and prints, per CASE, `P src dst latency n link...` / `X src dst message` lines. Everything that judges a route lives in the
Python check modules; this file only moves text around.
"""
import os, sys, subprocess, time, json
import common


def harness():
    return common.build_harness("routex", ["routex/routex.cpp"])


class CaseResult:
    __slots__ = ("id", "routes", "errors", "links", "names", "crash", "builderr", "complete", "qall")

    def __init__(self, cid):
        self.id = cid
        self.routes = {}      # (src, dst) -> list of (latency string, raw link field)   (a pair may be queried several times)
        self.errors = {}      # (src, dst) -> [message]
        self.links = {}       # name -> (latency, englobing zone)
        self.names = []       # link names in LK order (routes printed after a `links` directive refer to them by index)
        self.crash = None
        self.builderr = None
        self.complete = False
        self.qall = {}        # prefix -> list (one per qall on that prefix) of (host names, [raw answer lines in row-major order])

    def answers(self, prefix, k=0):
        """k-th `qall prefix`: -> (names, lines) with lines[i*n+j] = 'p lat idx...' or 'x message' for names[i] -> names[j]."""
        got = self.qall.get(prefix)
        return got[k] if got and k < len(got) else None

    def decode(self, line):
        """'p lat idx...' -> (latency, [link names]); 'x msg' -> (None, msg)"""
        if line[0] == "x":
            return None, line[2:]
        t = line.split(" ")
        names = self.names
        if names:
            return float(t[1]), [names[int(i)] if i[0] != "?" else i[1:] for i in t[2:]]
        return float(t[1]), t[2:]

    def route(self, key, k=0):
        """-> (latency, [link names]) of the k-th answer for the pair, or None."""
        got = self.routes.get(key)
        if not got or k >= len(got):
            return None
        lat, raw = got[k]
        if not raw:
            return float(lat), []
        if self.names:
            names = self.names
            return float(lat), [names[int(i)] if i[0] != "?" else i[1:] for i in raw.split(" ")]
        return float(lat), raw.split(" ")


def parse_output(text):
    """-> dict id -> CaseResult (order preserved). Route lines are kept raw and split on demand (memory is what costs here)."""
    res = {}
    cur = None
    sink = None
    for line in text.split("\n"):
        if not line:
            continue
        c = line[0]
        if c == "p" or c == "x":
            sink.append(line)
        elif c == "Q" and line.startswith("QA "):
            t = line.split(" ")
            sink = []
            cur.qall.setdefault(t[1], []).append((t[3:], sink))
        elif c == "P":
            t = line.split(" ", 5)
            key = (t[1], t[2])
            val = (t[3], t[5] if len(t) > 5 else "")
            prev = cur.routes.get(key)
            if prev is None:
                cur.routes[key] = [val]
            else:
                prev.append(val)
        elif c == "L" and line.startswith("LK "):
            t = line.split(" ")
            cur.links[t[1]] = (float(t[2]), t[3] if len(t) > 3 else "")
            cur.names.append(t[1])
        elif c == "X":
            t = line.split(" ", 3)
            cur.errors.setdefault((t[1], t[2]), []).append(t[3] if len(t) > 3 else "")
        elif line.startswith("CASE "):
            cur = CaseResult(line[5:])
            res[cur.id] = cur
        elif line.startswith("END "):
            if cur is not None and cur.id == line[4:]:
                cur.complete = True
        elif line.startswith("CRASH "):
            t = line.split(" ", 2)
            r = res.get(t[1])
            if r is None:
                r = CaseResult(t[1])
                res[t[1]] = r
            r.crash = t[2] if len(t) > 2 else "?"
        elif line.startswith("BUILDERR "):
            cur.builderr = line[9:]
    return res


def run_cases(exe, cases, workdir, tag, timeout=3000, case_timeout=600, case_cpu=None):
    """cases: list of (id, text-of-directives).  Runs one harness process; returns dict id -> CaseResult."""
    path = os.path.join(workdir, "%s.cases" % tag)
    with open(path, "w") as f:
        for cid, text in cases:
            f.write("CASE %s\n%s\nEND\n" % (cid, text.rstrip("\n")))
    env = dict(os.environ, ROUTEX_TIMEOUT=str(case_timeout))   # a case that hangs is killed (reported as CRASH sig=14)
    if case_cpu:
        env["ROUTEX_CPU"] = str(case_cpu)                       # ... or sig=24 when it burnt that many CPU seconds
    r = subprocess.run([exe, path], stdout=subprocess.PIPE, stderr=subprocess.PIPE, timeout=timeout, env=env)
    out = r.stdout.decode("utf-8", "replace")
    res = parse_output(out)
    for cid, _ in cases:
        if cid not in res:
            cr = CaseResult(cid)
            cr.crash = "no output (harness exit %s: %s)" % (r.returncode, r.stderr.decode("utf-8", "replace")[-200:])
            res[cid] = cr
    os.unlink(path)
    return res


def shards(items, n):
    """Split into at most n contiguous shards of nearly equal size."""
    items = list(items)
    n = max(1, min(n, len(items)))
    k, m = divmod(len(items), n)
    out, i = [], 0
    for j in range(n):
        sz = k + (1 if j < m else 0)
        out.append(items[i:i + sz])
        i += sz
    return out


def close(a, b):
    return abs(a - b) <= 1e-9 * max(1.0, abs(a), abs(b))


def confirm(ctx, violations, rerun):
    """Rule 3: every violation is re-run alone twice and must fail identically. rerun(case) -> signature or None.
    Returns the confirmed list; exits 2 when one does not reproduce (harness nondeterminism, never a VIOLATION)."""
    ok = []
    for v in violations:
        s1 = rerun(v.case)
        s2 = rerun(v.case)
        if s1 is None or s1 != s2 or s1 != v.case.get("signature"):
            common.log("verif: %s violation does not reproduce identically (harness bug, not a VIOLATION)" % ctx.prop)
            common.log("  key: %s\n  first:  %s\n  rerun1: %s\n  rerun2: %s" % (v.key, v.case.get("signature"), s1, s2))
            sys.exit(2)
        ok.append(v)
    return ok
