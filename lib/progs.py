"""Exhaustive program enumerator shared by the E4 checks (DESIGN.md §4.9).

A *template program* is a tuple of per-actor op lists; an op is a tuple (name, arg, ...).  In templates
  * a string ending with '@' is private to the actor ('x@' becomes 'x0' in actor 0, 'x1' in actor 1, ...),
  * a string 'a<i>' is a reference to actor i,
  * the names of an interchangeable family of shared objects (e.g. ('mb0','mb1')) are given to the enumerator, which
    renames them in order of first use,
so that "the same program up to a permutation of actors / objects" is decidable: a template is *canonical* iff it is
the smallest among all its actor permutations (after object renaming).  Only canonical templates are yielded:
symmetric duplicates are run once.

programs(alpha, A, K) is a plain odometer: exactly A actors x 1..K ops per actor (at least one actor with exactly K
ops when exact=True, so that the bounds (A,1),(A,2),(A,3) partition the space) x the alphabet alpha(i, A) of actor i.
Nothing is sampled; `relevance` (a predicate on the template) drops programs in which nothing can collide.
"""
import itertools, re

_AREF = re.compile(r"^a(\d+)$")


def oplists(alphabet, K):
    out = []
    for k in range(1, K + 1):
        out.extend(itertools.product(alphabet, repeat=k))
    return out


def _rename_actor_refs(ops, perm):
    """perm[old] = new"""
    out = []
    for op in ops:
        o = []
        for x in op:
            if isinstance(x, str):
                m = _AREF.match(x)
                if m and int(m.group(1)) < len(perm):
                    x = "a%d" % perm[int(m.group(1))]
            o.append(x)
        out.append(tuple(o))
    return tuple(out)


def _rename_objects(prog, families):
    if not families:
        return prog
    ren = {}
    nxt = {i: 0 for i in range(len(families))}
    fam_of = {n: i for i, f in enumerate(families) for n in f}
    out = []
    for ops in prog:
        no = []
        for op in ops:
            o = []
            for x in op:
                if isinstance(x, str) and x in fam_of:
                    if x not in ren:
                        f = fam_of[x]
                        ren[x] = families[f][nxt[f]]
                        nxt[f] += 1
                    x = ren[x]
                o.append(x)
            no.append(tuple(o))
        out.append(tuple(no))
    return tuple(out)


def _key(prog):
    return tuple(tuple(tuple((0, x) if isinstance(x, (int, float)) else (1, str(x)) for x in op) for op in ops)
                 for ops in prog)


def permuted(prog, order, families=()):
    """actor order[k] of prog becomes actor k"""
    perm = [0] * len(order)
    for new, old in enumerate(order):
        perm[old] = new
    p = tuple(_rename_actor_refs(prog[old], perm) for old in order)
    return _rename_objects(p, families)


def is_canonical(prog, families=(), fixed=0):
    """smallest among the permutations of actors fixed..A-1 (the first `fixed` actors are not interchangeable)"""
    me = _key(_rename_objects(prog, families))
    if me != _key(prog):
        return False
    n = len(prog)
    for tail in itertools.permutations(range(fixed, n)):
        order = list(range(fixed)) + list(tail)
        if order == list(range(n)):
            continue
        if _key(permuted(prog, order, families)) < me:
            return False
    return True


def programs(alpha, A, K, exact=True, families=(), relevance=None, fixed=0, symmetric=True):
    """yield canonical template programs with exactly A actors; alpha(i, A) -> alphabet (list of op tuples) of actor i"""
    if symmetric:      # the canonical-form filter is only sound if the alphabet is closed under actor permutations
        for order in itertools.permutations(range(fixed, A)):
            order = list(range(fixed)) + list(order)
            perm = [0] * A
            for new, old in enumerate(order):
                perm[old] = new
            for old in range(A):
                assert set(_rename_actor_refs(alpha(old, A), perm)) == set(map(tuple, alpha(perm[old], A))), \
                    "alphabet not closed under actor permutation"
    lists = [oplists(alpha(i, A), K) for i in range(A)]
    for prog in itertools.product(*lists):
        if exact and K > 1 and max(len(o) for o in prog) != K:
            continue
        if symmetric and not is_canonical(prog, families, fixed):
            continue
        if relevance is not None and not relevance(prog):
            continue
        yield prog


def count_raw(alpha, A, K):
    n = 1
    for i in range(A):
        n *= sum(len(alpha(i, A)) ** k for k in range(1, K + 1))
    return n


def instantiate(prog):
    """template -> list of concrete op lists ('x@' -> 'x<i>')"""
    out = []
    for i, ops in enumerate(prog):
        out.append([[(x[:-1] + str(i)) if isinstance(x, str) and x.endswith("@") else x for x in op] for op in ops])
    return out


def actor_refs(ops):
    return {int(_AREF.match(x).group(1)) for op in ops for x in op if isinstance(x, str) and _AREF.match(x)}


def text(prog):
    """short stable rendering used in case keys: a0:[sleep 1,kill a1]|a1:[...]"""
    def f(x):
        if isinstance(x, float) and x == int(x):
            return str(int(x))
        return str(x)
    return "|".join("[" + ",".join(" ".join(f(x) for x in op) for op in ops) + "]" for ops in prog)
