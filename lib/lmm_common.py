"""Engine E5 "lmmx" driver shared by C15..C18: shards (static configurations x start states) explored by
harness/lmmx/lmmx.cpp, one process per shard, bound by bound (history length 1, 2, 3 ...)."""
import os, sys, json, time, random, subprocess, threading, concurrent.futures as cf
import common

ENGINE = "E5 lmmx (harness/lmmx/lmmx.cpp + oracle.hpp)"


def harness():
    return common.build_harness("lmmx", ["lmmx/lmmx.cpp"])


def _lst(xs):
    return ",".join("%g" % x for x in xs)


def shard(mode, solver="maxmin", sel=1, nc=2, pol="SS", lim=(-1, -1), V=3, ops="NXFVPCS", pnew=(0, 1), wnew=(0.5, 1),
          wx=(0.5, 1), bv=(-1, 0.5), pset=(0, 1, 2), bc=(1, 2), cb0=1, start=0, prefix="", latex=0):
    return dict(mode=mode, solver=solver, sel=sel, nc=nc, pol=pol, lim=list(lim), V=V, ops=ops, pnew=list(pnew),
                wnew=list(wnew), wx=list(wx), bv=list(bv), pset=list(pset), bc=list(bc), cb0=cb0, start=start,
                prefix=prefix, latex=latex)


def shard_args(sh):
    a = ["--mode", sh["mode"], "--solver", sh["solver"], "--sel", str(sh["sel"]), "--nc", str(sh["nc"]),
         "--pol", sh["pol"], "--lim", _lst(sh["lim"]), "--V", str(sh["V"]), "--ops", sh["ops"],
         "--pnew", _lst(sh["pnew"]), "--wnew", _lst(sh["wnew"]), "--wx", _lst(sh["wx"]), "--bv", _lst(sh["bv"]),
         "--pset", _lst(sh["pset"]), "--bc", _lst(sh["bc"]), "--cb0", "%g" % sh["cb0"], "--start", str(sh["start"]),
         "--latex", str(sh.get("latex", 0))]
    if sh["prefix"]:
        a += ["--prefix", sh["prefix"]]
    return a


START_NAMES = {0: "plain", 1: "counter-near-wrap", 2: "counter-near-wrap-stale-stamps", 3: "counter-at-wrap-stale-stamps"}


def shard_name(sh):
    return "%s/sel%d nc=%d pol=%s lim=%s V=%d start=%s%s" % (
        sh["solver"], sh["sel"], sh["nc"], sh["pol"], _lst(sh["lim"]), sh["V"], START_NAMES[sh["start"]],
        (" prefix=[%s]" % sh["prefix"]) if sh["prefix"] else "")


def explore(ctx, shards, increments, reserve=20):
    """Staged iterative deepening. Every shard has a family label sh["fam"] and a base depth sh["base"].
    Stage 0 runs every shard at its base depth; then for k = 1..increments and for each family (in order of first
    appearance) one stage runs that family at base+k. A stage is completed or discarded; a stage is not started when
    its predicted duration does not fit in what is left of the budget.
    Returns (shards, deepest completed result per shard, stage log, all_completed)."""
    exe = harness()
    order = list(range(len(shards)))
    random.Random(ctx.seed).shuffle(order)        # the seed only chooses the order of the shards
    shards = [shards[i] for i in order]
    fams = []
    for sh in sorted(shards, key=lambda s: s.get("prio", 0)):
        if sh["fam"] not in fams:
            fams.append(sh["fam"])
    stages = [("all families at their base depth", [(i, sh["base"]) for i, sh in enumerate(shards)])]
    for k in range(1, increments + 1):
        for f in fams:
            idx = [(i, sh["base"] + k) for i, sh in enumerate(shards) if sh["fam"] == f and k <= sh.get("maxinc", increments)]
            if idx:
                stages.append(("%s at depth +%d" % (f, k), idx))
    best = [None] * len(shards)
    log, load, complete = [], 1.5, True
    usec = [10.0]                                 # CPU microseconds per transition, re-measured after every stage
    stopped_fams = set()
    for label, items in stages:
        fam = shards[items[0][0]]["fam"] if len({shards[i]["fam"] for i, _ in items}) == 1 else None
        if fam in stopped_fams:
            continue
        # prediction from each shard's previous run: transitions of the new level = last level x its growth, times the
        # measured cost of a transition (which grows with the length of the history to replay)
        pred = []
        for i, d in items:
            r = best[i]
            if r is None or len(r.get("level_transitions", [])) < 2 or r["level_transitions"][-2] == 0:
                pred.append(0.3)
                continue
            lt = r["level_transitions"]
            g = max(2.0, lt[-1] / lt[-2])
            trans = r["transitions"] + sum(lt[-1] * g ** k for k in range(1, d - r["depth"] + 1))
            pred.append(0.3 + trans * usec[0] * 1e-6 * d / max(1, r["depth"]))
        predicted = load * max(sum(pred) / common.NCPU, max(pred))
        if best[items[0][0]] is not None and predicted > ctx.deadline.left() - reserve:
            common.log("lmmx: stage '%s' not started (predicted %.0fs, %.0fs left)" % (label, predicted, ctx.deadline.left()))
            complete = False
            stopped_fams.add(fam)
            if fam is None:
                break
            continue
        t0 = time.time()
        res = _run_round(exe, [shards[i] for i, _ in items], [d for _, d in items], ctx.deadline, reserve)
        dt = time.time() - t0
        if res is None:
            common.log("lmmx: stage '%s' interrupted by the deadline after %.0fs, discarded" % (label, dt))
            complete = False
            break
        errs = [r for r in res if r is None or "error" in r]
        killed = [r for r in errs if r and "error" in r and ("harness exit -6" in r["error"] or "harness exit -9" in r["error"]) and r["error"].rstrip().endswith("output ''")]
        if errs and len(killed) == len(errs) and any(b is not None for b in best):
            # a shard of a *deepening* stage died without a word (memory exhausted with 16 state tables in parallel): the stage is
            # dropped like one cut by the deadline; what the earlier stages covered stands
            common.log("lmmx: stage '%s' ran out of resources (%s), discarded" % (label, killed[0]["error"][:60]))
            complete = False
            break
        if errs:
            common.log("lmmx: harness error: %s" % errs[0])
            raise SystemExit(2)
        for (i, d), r in zip(items, res):
            best[i] = r
        cpu = sum(r["cpu_s"] for r in res)
        big = [r for r in res if r["transitions"] > 50000]
        if big:
            usec[0] = max(3.0, min(60.0, 1e6 * sum(r["cpu_s"] for r in big) / sum(r["transitions"] for r in big)))
        if cpu > 4:
            load = max(1.0, min(10.0, dt / max(cpu / common.NCPU, max(r["cpu_s"] for r in res))))
        log.append({"stage": label, "wall_s": round(dt, 1), "cpu_s": round(cpu, 1), "shards": len(items),
                    "states": sum(r["states"] for r in res), "transitions": sum(r["transitions"] for r in res)})
        common.log("lmmx: stage '%s' done in %.1fs (cpu %.0fs, predicted %.0fs): %d states, %d transitions, classes %s" % (
            label, dt, cpu, predicted, log[-1]["states"], log[-1]["transitions"],
            sorted({v["class"] for r in res for v in r["violations"]})))
    return shards, best, log, complete


def depths_by_family(shards, best):
    out = {}
    for sh, r in zip(shards, best):
        out[sh["fam"]] = min(out.get(sh["fam"], 99), r["depth"])
    return out


def _run_round(exe, shards, depths, deadline, reserve):
    procs, lock = set(), threading.Lock()
    state = {"cancelled": False}

    def one(arg):
        sh, depth = arg
        if state["cancelled"]:
            return None
        cmd = [exe] + shard_args(sh) + ["--depth", str(depth)]
        p = subprocess.Popen(cmd, stdout=subprocess.PIPE, stderr=subprocess.DEVNULL, text=True)
        with lock:
            procs.add(p)
        out, _ = p.communicate()
        with lock:
            procs.discard(p)
        if state["cancelled"]:
            return None
        try:
            return json.loads(out.strip().splitlines()[-1])
        except Exception:
            return {"error": "harness exit %s on %s, output %r" % (p.returncode, " ".join(cmd), out[-300:])}

    res = [None] * len(shards)
    with cf.ThreadPoolExecutor(max_workers=common.NCPU) as ex:
        futs = {ex.submit(one, a): i for i, a in enumerate(zip(shards, depths))}
        pending = set(futs)
        while pending:
            done, pending = cf.wait(pending, timeout=0.5, return_when=cf.FIRST_COMPLETED)
            for f in done:
                res[futs[f]] = f.result()
            if pending and deadline.left() < reserve:
                state["cancelled"] = True
                with lock:
                    for p in list(procs):
                        try:
                            p.kill()
                        except Exception:
                            pass
                cf.wait(pending)
                return None
    return res


def replay_once(sh, hist):
    exe = harness()
    cmd = [exe] + shard_args(sh) + ["--replay", hist]
    p = subprocess.run(cmd, stdout=subprocess.PIPE, stderr=subprocess.DEVNULL, text=True)
    verdicts = sorted(l for l in p.stdout.splitlines() if l.startswith("VIOLATED "))
    return p.returncode, verdicts, p.stdout


def collect(prop, shards, results):
    """Merge the violation classes of all shards: one Violation per class, carrying the smallest witness."""
    classes, unjudged, stats = {}, {}, {}
    for sh, r in zip(shards, results):
        for k, v in r.get("stats", {}).items():
            stats[k] = stats.get(k, 0) + v
        for kind, dst in (("violations", classes), ("unjudged", unjudged)):
            for v in r.get(kind, []):
                c = dst.setdefault(v["class"], {"count": 0, "shards": 0, "witness": None})
                c["count"] += v["count"]
                c["shards"] += 1
                rank = (len(v["hist"].split(";")) + len([x for x in sh["prefix"].split(";") if x]), shard_name(sh), v["hist"])
                if c["witness"] is None or rank < c["witness"][0]:
                    c["witness"] = (rank, sh, v["hist"], v["detail"])
    return classes, unjudged, stats


def confirm(prop, classes):
    """Re-run each witness alone twice; it must fail identically both times (else harness bug: exit 2)."""
    out = []
    for cls, c in sorted(classes.items()):
        _, sh, hist, detail = c["witness"]
        runs = [replay_once(sh, hist) for _ in range(2)]
        want = "VIOLATED %s :: " % cls
        for rc, verdicts, text in runs:
            if rc != 1 or not any(v.startswith(want) for v in verdicts) or verdicts != runs[0][1]:
                common.log("lmmx: violation '%s' on %s hist=%s did not reproduce identically when re-run alone:\n%s" % (
                    cls, shard_name(sh), hist, text[-1500:]))
                raise SystemExit(2)
        key = "%s %s" % (prop, cls)
        what = "%s [smallest witness: %s hist=%s; %d violating transitions in %d shards]" % (
            detail, shard_name(sh), hist, c["count"], c["shards"])
        out.append(common.Violation(key, what, {"shard": {k: v for k, v in sh.items() if not k.startswith("_")}, "hist": hist,
                                                "class": cls}))
    return out


def replay(ctx, case):
    c = case["case"]
    rc, verdicts, text = replay_once(c["shard"], c["hist"])
    print(text, end="")
    print("replay of %s: %s" % (case.get("key", ""), "violation reproduced" if rc == 1 else "no violation (exit %d)" % rc))
    return 1 if rc == 1 else (0 if rc == 0 else 2)


def note_unjudged(unjudged):
    for cls, c in sorted(unjudged.items()):
        _, sh, hist, detail = c["witness"]
        print("NOTE (outside the statement, not judged): %s x%d, e.g. %s hist=%s%s" % (
            cls, c["count"], shard_name(sh), (sh["prefix"] + ";") if sh["prefix"] else "", hist))
    return {cls: {"count": c["count"], "example": {"shard": shard_name(c["witness"][1]), "hist": c["witness"][2]}}
            for cls, c in unjudged.items()}
