"""Python side of harness/res (resource-model half of engine E4): case text builder, parallel runner, output parser,
exact max-min fluid reference in Fractions, and the generic bound-by-bound driver shared by C19..C23."""
import os, re, subprocess, shutil, time, itertools
from fractions import Fraction as F
from concurrent.futures import ThreadPoolExecutor
import common

_bin = None


def harness():
    global _bin
    if _bin is None:
        _bin = common.build_harness("res", ["res/res.cpp"])
    return _bin


def fnum(x):
    """A number as the harness must read it (exact double round trip)."""
    if isinstance(x, F):
        x = float(x)
    if isinstance(x, float):
        return repr(x)
    return str(x)


def _enc(x):
    if isinstance(x, F):
        return {"__F__": str(x)}
    if isinstance(x, dict):
        return {k: _enc(v) for k, v in x.items()}
    if isinstance(x, (list, tuple)):
        return [_enc(v) for v in x]
    return x


def _dec(x):
    if isinstance(x, dict):
        if "__F__" in x:
            return F(x["__F__"])
        return {k: _dec(v) for k, v in x.items()}
    if isinstance(x, list):
        return [_dec(v) for v in x]
    return x


class Scen:
    """One self-contained scenario: its own hosts/links/disks/activities/events, all named with the prefix self.p so that
    several scenarios can share one simulation (same global configuration) without sharing any resource."""

    def __init__(self, sid, meta=None):
        self.id = sid
        self.p = sid + "_"
        self.lines = []
        self.meta = meta or {}

    def n(self, name):
        return self.p + name

    def add(self, *tok):
        self.lines.append(" ".join(fnum(t) if not isinstance(t, str) else t for t in tok))
        return self

    def to_json(self):
        return {"id": self.id, "lines": self.lines, "meta": _enc(self.meta)}

    @staticmethod
    def from_json(d):
        s = Scen(d["id"], _dec(d.get("meta")))
        s.lines = list(d["lines"])
        return s


class Case:
    """One simulation = global configuration lines + one or more scenarios."""

    def __init__(self, cid, cfg=(), scens=(), head=()):
        self.id = cid
        self.cfg = [tuple(x) for x in cfg]      # [(key, value)]
        self.head = list(head)                  # other global lines (plugin, sample, energy, horizon)
        self.scens = list(scens)

    def text(self):
        L = ["case " + self.id] + ["cfg %s:%s" % (k, fnum(v) if not isinstance(v, str) else v) for k, v in self.cfg]
        L += self.head
        for s in self.scens:
            L += s.lines
        return "\n".join(L) + "\nend\n"

    def single(self, scen):
        return Case(self.id + "." + scen.id, self.cfg, [scen], self.head)

    def to_json(self):
        return {"id": self.id, "cfg": [list(x) for x in self.cfg], "head": self.head,
                "scens": [s.to_json() for s in self.scens]}

    @staticmethod
    def from_json(d):
        return Case(d["id"], d["cfg"], [Scen.from_json(x) for x in d["scens"]], d.get("head", ()))


def pack(prefix, cfg, scens, size, head=()):
    """Group scenarios sharing one configuration into simulations of at most `size` scenarios."""
    scens = list(scens)
    return [Case("%s%d" % (prefix, i // size), cfg, scens[i:i + size], head) for i in range(0, len(scens), size)]


# ------------------------------------------------------------------------------------------------ parsing
_kv = re.compile(r"(\w+)=(\S+)")


def _num(s):
    try:
        return float(s)
    except ValueError:
        return s


def parse_output(out):
    """-> {case id: {"status": "exit=0", "acts": {id: {...}}, "samples": [ {where,t,R:{},H:{},L:{},D:{}} ], "energy": [...],
    "clock": float, "raw": text}}"""
    res = {}
    cur = None
    for line in out.splitlines():
        if line.startswith("BEGIN "):
            cur = {"status": None, "acts": {}, "samples": [], "energy": [], "clock": None, "raw": [], "adv": []}
            res[line[6:].strip()] = cur
            continue
        if cur is None:
            continue
        if line.startswith("END "):
            cur["status"] = line.split()[2]
            cur["raw"] = "\n".join(cur["raw"])
            cur = None
            continue
        cur["raw"].append(line)
        t = line.split()
        if not t:
            continue
        k = t[0]
        if k == "T":
            cur["samples"].append({"where": t[1], "t": float(t[2]), "R": {}, "H": {}, "L": {}, "D": {}})
        elif k == "ADV":
            cur["adv"].append(float(t[1]))
        elif k == "R" and cur["samples"]:
            d = {"rem": None if t[2] == "-" else float(t[2]), "state": t[3]}
            d.update({a: _num(b) for a, b in _kv.findall(line)})
            cur["samples"][-1]["R"][t[1]] = d
        elif k in ("H", "L", "D") and cur["samples"]:
            cur["samples"][-1][k][t[1]] = {a: _num(b) for a, b in _kv.findall(line)}
        elif k == "A":
            d = {"kind": t[2]}
            d.update({a: _num(b) for a, b in _kv.findall(line)})
            cur["acts"][t[1]] = d
        elif k == "E":
            cur["energy"].append({"kind": t[1], "name": t[2], "energy": float(t[3]), "t": float(t[5])})
        elif k == "CLOCK":
            cur["clock"] = float(t[1])
    return res


def run_cases(cases, tag="res", workers=None, timeout=120):
    """Run all cases (16 harness processes over shards). Returns {id: parsed result}."""
    cases = list(cases)
    if not cases:
        return {}
    workers = workers or common.NCPU
    d = common.tmpdir(tag)
    n = min(workers, len(cases))
    # round-robin shards so that expensive neighbours are spread
    shards = [cases[i::n] for i in range(n)]
    binp = harness()
    stamp = "%d-%d" % (os.getpid(), int(time.time() * 1e6) % 10**9)

    def one(i):
        p = os.path.join(d, "shard-%s-%d.txt" % (stamp, i))
        with open(p, "w") as f:
            for c in shards[i]:
                f.write(c.text())
        env = dict(os.environ, RES_TIMEOUT=str(timeout))
        r = subprocess.run([binp, p], stdout=subprocess.PIPE, stderr=subprocess.STDOUT, text=True, env=env,
                           errors="replace")
        os.unlink(p)
        return r.stdout

    with ThreadPoolExecutor(max_workers=n) as ex:
        outs = list(ex.map(one, range(n)))
    res = {}
    if sum(len(o) for o in outs) > 4_000_000:          # big sampled outputs: parse in worker processes
        for d_ in common.pmap(parse_output, outs):
            res.update(d_)
    else:
        for o in outs:
            res.update(parse_output(o))
    return res


def _shard_work(args):
    """Worker process: run one shard through the harness, parse, judge every scenario. Returns
    [(case id, status, [(scen id, fails, nontrivial, note)], observed acts of the case)]."""
    cases, judge, tag, timeout, idx = args
    d = common.tmpdir(tag)
    p = os.path.join(d, "shard-%d-%d-%d.txt" % (os.getpid(), idx, int(time.time() * 1e6) % 10**9))
    with open(p, "w") as f:
        for c in cases:
            f.write(c.text())
    env = dict(os.environ, RES_TIMEOUT=str(timeout))
    r = subprocess.run([harness(), p], stdout=subprocess.PIPE, stderr=subprocess.STDOUT, text=True, env=env, errors="replace")
    os.unlink(p)
    try:
        os.rmdir(d)
    except OSError:
        pass
    res = parse_output(r.stdout)
    out = []
    for c in cases:
        rr = res.get(c.id)
        if rr is None:
            out.append((c.id, None, [], {}))
            continue
        if rr["status"] != "exit=0" and len(c.scens) > 1:
            out.append((c.id, rr["status"], None, {}))          # to be split by the caller
            continue
        verdicts = [(sc.id,) + tuple(judge(sc, rr, c)) for sc in c.scens]
        obs = {k: {"start": v.get("start"), "finish": v.get("finish"), "state": v.get("state")} for k, v in rr["acts"].items()}
        out.append((c.id, rr["status"], verdicts, obs))
    return out


def run_and_judge(cases, judge, tag="res", timeout=30):
    cases = list(cases)
    if not cases:
        return {}
    harness()
    n = min(common.NCPU, len(cases))
    shards = [(cases[i::n], judge, tag, timeout, i) for i in range(n)]
    out = {}
    for part in common.pmap(_shard_work, shards, workers=n):
        for cid, status, verdicts, obs in part:
            out[cid] = (status, verdicts, obs)
    return out


def cleanup(tag="res"):
    shutil.rmtree(os.path.join(common.TMP, "%s-%d" % (tag, os.getpid())), ignore_errors=True)


# ------------------------------------------------------------------------------------------------ fluid reference
def maxmin(variables, constraints):
    """Weighted max-min fair allocation by progressive filling, in exact rationals.
    variables: {v: (penalty, bound or None)}   share of v grows as lambda/penalty
    constraints: list of (capacity, {v: weight}, fatpipe?)
    Returns {v: rate}. Boring by design: raise the common level until a constraint saturates or a bound is hit,
    freeze the variables concerned, repeat."""
    rate = {v: F(0) for v in variables}
    active = {v for v, (p, b) in variables.items() if p > 0}
    cap = [F(c[0]) for c in constraints]
    frozen_use = [F(0)] * len(constraints)
    while active:
        # level increase until first stop
        best = None
        for v in active:
            p, b = variables[v]
            if b is not None:
                lam = F(b) * p          # rate = lam/p == b
                if best is None or lam < best:
                    best = lam
        for ci, (c, w, fat) in enumerate(constraints):
            if fat:
                for v in active:
                    if w.get(v, 0) > 0:
                        lam = cap[ci] / w[v] * variables[v][0]
                        if best is None or lam < best:
                            best = lam
            else:
                denom = sum(F(w[v]) / variables[v][0] for v in active if w.get(v, 0) > 0)
                if denom > 0:
                    lam = (cap[ci] - frozen_use[ci]) / denom
                    if best is None or lam < best:
                        best = lam
        if best is None:
            raise ValueError("unbounded variable")
        stop = set()
        for v in active:
            p, b = variables[v]
            if b is not None and F(b) * p == best:
                stop.add(v)
        for ci, (c, w, fat) in enumerate(constraints):
            if fat:
                for v in active:
                    if w.get(v, 0) > 0 and cap[ci] / w[v] * variables[v][0] == best:
                        stop.add(v)
            else:
                denom = sum(F(w[v]) / variables[v][0] for v in active if w.get(v, 0) > 0)
                if denom > 0 and (cap[ci] - frozen_use[ci]) / denom == best:
                    stop.update(v for v in active if w.get(v, 0) > 0)
        for v in stop:
            rate[v] = best / variables[v][0]
            for ci, (c, w, fat) in enumerate(constraints):
                if not fat and w.get(v, 0) > 0:
                    frozen_use[ci] += F(w[v]) * rate[v]
        active -= stop
    return rate


def fluid(acts, resources, events=(), horizon=None):
    """Exact fluid (piecewise-constant rates) reference for small workloads.
    acts: list of dict(id, start, cost, penalty=1, bound=None, uses={resource: weight}, latency=0)
    resources: {name: dict(cap, fat=False)}
    events: list of (date, op, target, value) with op in suspend|resume|bound|prio|cap|fail (fail = resource off: its
            running activities end FAILED at that date, later ones fail at their start)
    Returns (result {id: dict(start, finish, state)}, timeline [(t0, t1, {id: rate})])."""
    acts = {a["id"]: dict(a) for a in acts}
    res = {k: dict(v) for k, v in resources.items()}
    for a in acts.values():
        a.setdefault("penalty", F(1)); a.setdefault("bound", None); a.setdefault("latency", F(0))
        a["rem"] = F(a["cost"]); a["state"] = "PENDING"; a["susp"] = False; a["finish"] = None
        a["consume_from"] = None
    evs = sorted([(F(d), i, op, tg, val) for i, (d, op, tg, val) in enumerate(events)])
    off = set()
    t = F(0)
    timeline = []
    ei = 0
    guard = 0
    while True:
        guard += 1
        assert guard < 10000
        # things happening at t: starts first (declaration order), then events, as the harness controller does
        for a in acts.values():
            if a["state"] == "PENDING" and F(a["start"]) == t:
                if any(r in off for r in a["uses"]):
                    a["state"], a["finish"] = "FAILED", t
                else:
                    a["state"] = "RUNNING"
                    a["consume_from"] = t + F(a["latency"])
        while ei < len(evs) and evs[ei][0] == t:
            _, _, op, tg, val = evs[ei]
            ei += 1
            if op == "suspend":
                if acts[tg]["state"] == "RUNNING": acts[tg]["susp"] = True
            elif op == "resume":
                acts[tg]["susp"] = False
            elif op == "bound":
                acts[tg]["bound"] = F(val)
            elif op == "prio":
                acts[tg]["penalty"] = 1 / F(val)
            elif op == "cap":
                res[tg]["cap"] = F(val)
            elif op == "fail":
                off.add(tg)
                for a in acts.values():
                    if a["state"] == "RUNNING" and tg in a["uses"]:
                        a["state"], a["finish"] = "FAILED", t
            elif op == "restore":
                off.discard(tg)
        run = [a for a in acts.values() if a["state"] == "RUNNING" and not a["susp"] and a["consume_from"] <= t]
        variables = {a["id"]: (F(a["penalty"]), a["bound"]) for a in run}
        cons = []
        for rn, r in res.items():
            w = {a["id"]: F(a["uses"][rn]) for a in run if a["uses"].get(rn, 0)}
            if w:
                cons.append((F(r["cap"]), w, bool(r.get("fat"))))
        rates = maxmin(variables, cons) if run else {}
        # next date
        cand = []
        for a in acts.values():
            if a["state"] == "PENDING":
                cand.append(F(a["start"]))
            elif a["state"] == "RUNNING" and a["consume_from"] > t:
                cand.append(a["consume_from"])
        if ei < len(evs):
            cand.append(evs[ei][0])
        for a in run:
            if rates[a["id"]] > 0:
                cand.append(t + a["rem"] / rates[a["id"]])
        if horizon is not None and t < F(horizon):
            cand.append(F(horizon))
        if not cand:
            break
        t1 = min(cand)
        timeline.append((t, t1, dict(rates)))
        for a in run:
            a["rem"] -= rates[a["id"]] * (t1 - t)
            if a["rem"] == 0:
                a["state"], a["finish"] = "FINISHED", t1
        t = t1
        if all(a["state"] in ("FINISHED", "FAILED") for a in acts.values()) and ei >= len(evs) and \
                (horizon is None or t >= F(horizon)):
            break
    return {k: {"start": F(a["start"]), "finish": a["finish"], "state": a["state"]} for k, a in acts.items()}, timeline


# ------------------------------------------------------------------------------------------------ generic driver
def close(a, b, rel=1e-9, abs_=1e-9):
    """|a-b| <= rel*|b| + abs_ with b the exact reference (Fraction or float)."""
    a = F(a) if not isinstance(a, F) else a
    b = F(b) if not isinstance(b, F) else b
    return abs(a - b) <= F(rel) * abs(b) + F(abs_)


def _judge_all(case, res, judge):
    out = []
    for sc in case.scens:
        out.append((sc,) + tuple(judge(sc, res, case)))
    return out


def _keys(fails):
    return sorted(set(k for k, _ in fails))


def drive(ctx, bounds, judge, level="exploration", engine="E4 res", rule="", assumptions=(), extra=None, timeout=120,
          tag=None):
    """bounds: list of (name, callable -> list of Case). Each bound is run completely or not at all.
    judge(scen, result_of_its_simulation, case) -> (list of (key, what), nontrivial: False/True/hashable class, note)
    A failing scenario is re-run alone twice (then, if it only fails in company, its whole simulation twice) and must fail
    identically; a simulation that crashed is split and every scenario re-run alone."""
    tag = tag or ctx.prop.lower()
    evaluations = simulations = 0
    nontrivial = set()
    done, skipped = [], []
    samples = []
    failing = []
    per_bound = {}
    notes = {}
    for name, gen in bounds:
        if done and (ctx.deadline.over() or ctx.deadline.left() < 5):
            skipped.append(name)
            continue
        t0 = time.time()
        cases = gen()
        if ctx.seed:
            import random
            random.Random(ctx.seed).shuffle(cases)
        res = run_and_judge(cases, judge, tag=tag, timeout=timeout)
        simulations += len(cases)
        nfail = nsc = 0
        byid = {c.id: c for c in cases}
        split = []
        for c in cases:
            status, verdicts, obs = res[c.id]
            if status is None:
                common.log("verif: harness produced no output for case %s" % c.id)
                raise SystemExit(2)
            if verdicts is None:
                split += [c.single(sc) for sc in c.scens]          # the simulation crashed: find the culprit(s)
        if split:
            res.update(run_and_judge(split, judge, tag=tag, timeout=timeout))
            simulations += len(split)
            byid.update({c.id: c for c in split})
        for cid, (status, verdicts, obs) in res.items():
            if verdicts is None:
                continue
            c = byid[cid]
            for sc, (sid, fails, nt, note) in zip(c.scens, verdicts):
                evaluations += 1
                nsc += 1
                if nt:
                    nontrivial.add((cid, sid) if nt is True else nt)
                if note:
                    notes[note] = notes.get(note, 0) + 1
                if fails:
                    nfail += 1
                    failing.append((c, sc, fails))
                if len(samples) < 6 and nsc % 97 == 1:
                    samples.append({"cfg": c.cfg, "scenario": sc.lines,
                                    "observed": {k: v for k, v in obs.items() if k.startswith(sc.p)}})
        per_bound[name] = {"simulations": len(cases), "scenarios": nsc, "failing": nfail, "wall_s": round(time.time() - t0, 1)}
        done.append(name)
    # confirm violations: each is re-run alone twice (all re-runs of a round in parallel) and must fail identically;
    # at most 2 members per key and 60 scenarios are re-run, the other failing scenarios are only counted.
    violations = []
    per_key = {}
    chosen, not_rerun = [], 0
    for c, sc, fails in failing:
        k0 = _keys(fails)
        if len(chosen) < 60 and any(per_key.get(k, 0) < 2 for k in k0):
            for k in k0:
                per_key[k] = per_key.get(k, 0) + 1
            chosen.append((c, sc, fails))
        else:
            not_rerun += 1
    key_counts = {}
    for c, sc, fails in failing:
        for k in _keys(fails):
            key_counts[k] = key_counts.get(k, 0) + 1
    failing_by_key = dict(sorted(key_counts.items(), key=lambda kv: -kv[1])[:40])

    def rerun_round(cands):
        """cands: list of (case, scen). Two runs each; returns list of bool 'failed identically twice' and key lists."""
        outs = []
        for rep in range(2):
            renamed = [Case("%s.r%d.%d" % (cc.id, rep, i), cc.cfg, cc.scens, cc.head) for i, (cc, _s, _f) in enumerate(cands)]
            rr = run_cases(renamed, tag=tag, timeout=timeout)
            outs.append([_keys(judge(s_, rr[rn.id], rn)[0]) if rn.id in rr else None
                         for rn, (_c, s_, _f) in zip(renamed, cands)])
        return [outs[0][i] == outs[1][i] == _keys(cands[i][2]) for i in range(len(cands))]

    if chosen:
        alone = [((c.single(sc) if len(c.scens) > 1 else c), sc, fails) for c, sc, fails in chosen]
        ok_alone = rerun_round(alone)
        company = [(c, sc, fails) for (c, sc, fails), ok in zip(chosen, ok_alone) if not ok and len(c.scens) > 1]
        ok_company = dict(zip([id(x[1]) for x in company], rerun_round(company))) if company else {}
        for (c, sc, fails), (ca, _s, _f), ok in zip(chosen, alone, ok_alone):
            if ok:
                where, suffix = ca, ""
            elif ok_company.get(id(sc)):
                where, suffix = c, " [fails only together with the other scenarios of its simulation]"
            else:
                common.log("verif: scenario %s of %s failed with %s but does not fail identically when re-run: harness "
                           "nondeterminism (exit 2)" % (sc.id, c.id, _keys(fails)))
                cleanup(tag)
                raise SystemExit(2)
            for k in _keys(fails):
                n = key_counts.get(k, 1)
                more = " (%d scenarios fail with this key)" % n if n > 1 else ""
                violations.append(common.Violation(k, dict(fails)[k] + suffix + more, {"case": where.to_json(), "scen": sc.id}))
                key_counts[k] = 0 if n > 1 else n   # say it once
    cleanup(tag)
    cov = {"evaluations": evaluations, "distinct_nontrivial": len(nontrivial), "rule": rule, "samples": samples,
           "exhaustive": not skipped, "bounds_completed": done, "bounds_not_started": skipped, "per_bound": per_bound,
           "simulations_run": simulations, "outcome_classes": notes, "failing_scenarios": len(failing),
           "failing_scenarios_not_rerun": not_rerun, "failing_by_key": failing_by_key}
    if extra:
        cov.update(extra() if callable(extra) else extra)
    if len(nontrivial) < 2 and not violations:
        common.log("verif: %s explored <2 non-trivial cases: vacuous (exit 2)" % ctx.prop)
        raise SystemExit(2)
    common.finish(ctx, level, cov, list(assumptions), violations, engine=engine)


def replay_case(ctx, case, judge):
    c = Case.from_json(case["case"]["case"])
    want = case["case"].get("scen")
    r = run_cases([c], tag=ctx.prop.lower() + "r").get(c.id)
    cleanup(ctx.prop.lower() + "r")
    print("--- case %s" % c.id)
    print(c.text())
    print("--- harness output")
    print(r["raw"] if r else "(none)")
    print("--- status", r["status"] if r else None)
    bad = 0
    for sc in c.scens:
        if want and sc.id != want:
            continue
        fails, _, _ = judge(sc, r, c)
        for k, w in fails:
            bad = 1
            print("FAIL key: %s\n     what: %s" % (k, w))
    if not bad:
        print("no failure on this case")
    return bad
