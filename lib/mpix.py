"""E7 `mpix` plumbing shared by C30..C33, C35: build an SMPI program with the build tree's smpicc/smpicxx, run it with
smpirun on a generated platform, split its stdout into records, aggregate violations into stable keys."""
import os, sys, subprocess, json, time, shlex
import common

SMPIBIN = os.path.join(common.SG, "smpi_script", "bin")
HARNESS = os.path.join(common.VERIF, "harness", "mpix")


def build_smpi(name, sources, cxx=False, extra=()):
    """Compile harness/mpix/<sources> into HB/<name> with smpicc/smpicxx of the build tree. Recompiled when a source,
    libsimgrid.so or an SMPI public header is newer than the binary."""
    os.makedirs(common.HB, exist_ok=True)
    out = os.path.join(common.HB, name)
    srcs = [s if os.path.isabs(s) else os.path.join(HARNESS, s) for s in sources]
    deps = list(srcs) + [os.path.join(common.SG, "lib", "libsimgrid.so"),
                         os.path.join(common.REPO, "include", "smpi", "smpi.h")]
    extra = list(extra)
    stamp = out + ".cmd"
    cc = os.path.join(SMPIBIN, "smpicxx" if cxx else "smpicc")
    cmd = [cc, "-O1", "-g0", "-w"] + (["-std=c++17"] if cxx else ["-std=gnu11"]) + extra + srcs + ["-o", out, "-lm"]
    with common._Lock("h-" + name):
        fresh = (os.path.exists(out) and os.path.exists(stamp) and open(stamp).read() == " ".join(cmd)
                 and all(os.path.getmtime(d) <= os.path.getmtime(out) for d in deps if os.path.exists(d)))
        if not fresh:
            r = subprocess.run(cmd, stdout=subprocess.PIPE, stderr=subprocess.STDOUT, text=True)
            if r.returncode:
                common.log(r.stdout[-6000:])
                common.log("verif: SMPI harness %s failed to compile against the current tree" % name)
                raise SystemExit(2)
            open(stamp, "w").write(" ".join(cmd))
    return out


def platform(tmp, nhosts=4):
    """A boring fully connected cluster: nhosts hosts, one backbone. Returns (platform.xml, hostfile)."""
    p = os.path.join(tmp, "plat.xml")
    h = os.path.join(tmp, "hosts.txt")
    if not os.path.exists(p):
        open(p, "w").write(
            '<?xml version="1.0"?>\n<!DOCTYPE platform SYSTEM "https://simgrid.org/simgrid.dtd">\n<platform version="4.1">\n'
            '<cluster id="c" prefix="n" suffix="" radical="0-%d" speed="1Gf" bw="1GBps" lat="10us" '
            'bb_bw="10GBps" bb_lat="10us"/>\n</platform>\n' % (nhosts - 1))
        open(h, "w").write("".join("n%d\n" % i for i in range(nhosts)))
    return p, h


def smpirun(tmp, binary, np, args=(), cfg=(), timeout=600, nhosts=4, env=None):
    """Run once. Returns (returncode, stdout, stderr). returncode<0 / >0 means the simulation died."""
    p, h = platform(tmp, nhosts)
    cmd = [os.path.join(SMPIBIN, "smpirun"), "-np", str(np), "-platform", p, "-hostfile", h,
           "--log=root.thres:error", "--cfg=smpi/simulate-computation:no", "--cfg=smpi/host-speed:1Gf"]
    cmd += ["--cfg=" + c for c in cfg]
    cmd += [binary] + [str(a) for a in args]
    e = dict(os.environ)
    e["TMPDIR"] = tmp      # smpirun's own -tmpdir option is broken (shifts one argument too few); mktemp honours TMPDIR
    if env:
        e.update(env)
    try:
        r = subprocess.run(cmd, stdout=subprocess.PIPE, stderr=subprocess.PIPE, text=True, timeout=timeout, env=e,
                           errors="replace")
        return r.returncode, r.stdout, r.stderr
    except subprocess.TimeoutExpired as ex:
        out = ex.stdout.decode(errors="replace") if isinstance(ex.stdout, bytes) else (ex.stdout or "")
        err = ex.stderr.decode(errors="replace") if isinstance(ex.stderr, bytes) else (ex.stderr or "")
        return 124, out, err + "\n[verif] timeout after %ss" % timeout


def records(stdout):
    """Harness lines are `<TAG> k=v k=v ...`; returns list of (tag, dict)."""
    out = []
    for line in stdout.splitlines():
        parts = line.split()
        if not parts or not parts[0].isupper():
            continue
        d = {}
        ok = True
        for kv in parts[1:]:
            if "=" not in kv:
                ok = False
                break
            k, _, v = kv.partition("=")
            d[k] = v
        if ok:
            out.append((parts[0], d))
    return out


def cleanup(tmp):
    import shutil
    shutil.rmtree(tmp, ignore_errors=True)


class Agg:
    """Aggregates harness records: V (first violations per kind and rank), S (totals per kind), N (counters).
    One violation is reported per kind, keyed by its first case in the canonical order given by sortkey(record)."""
    def __init__(self, sortkey, counters):
        self.sortkey, self.kinds = sortkey, {}
        self.tot = dict.fromkeys(counters, 0)

    def absorb(self, out, count_from=None):
        for t, d in records(out):
            if t == "N" and (count_from is None or count_from(d)):
                for c in self.tot:
                    if c in d:
                        self.tot[c] += int(d[c])
            elif t == "S":
                self.kinds.setdefault(d["kind"], {"count": 0, "first": None})["count"] += int(d["count"])
            elif t == "V":
                k = self.kinds.setdefault(d["kind"], {"count": 0, "first": None})
                if k["first"] is None or self.sortkey(d) < self.sortkey(k["first"]):
                    k["first"] = d


def same_record(a, b):
    return all(a.get(k) == b.get(k) for k in set(a) | set(b))


def confirm_twice(prop, key, rec, rerun):
    """rule 3: the case re-run alone must fail identically twice; otherwise it is a harness bug (exit 2)."""
    for attempt in (1, 2):
        rc, vs, err = rerun()
        if not any(same_record(v, rec) for v in vs):
            common.log("%s: violation %s did not reproduce alone (attempt %d, rc=%s): harness bug" % (prop, key, attempt, rc))
            common.log(err[-1500:])
            sys.exit(2)


def confirm_all(prop, items, workers=None, fatal=True):
    """items: list of (key, record, rerun callable). Re-runs every case alone twice, in parallel; exit 2 if one does not
    fail identically both times."""
    import concurrent.futures as cf

    def one(it):
        key, rec, rerun = it
        for attempt in (1, 2):
            rc, vs, err = rerun()
            if not any(same_record(v, rec) for v in vs):
                return (key, "%s: violation %s did not reproduce alone (attempt %d, rc=%s): harness bug\n%s" % (prop, key, attempt, rc, err[-800:]))
        return None
    with cf.ThreadPoolExecutor(max_workers=workers or common.NCPU) as ex:
        bad = [r for r in ex.map(one, items) if r]
    if bad and fatal:
        common.log("\n".join(m for _, m in bad))
        sys.exit(2)
    return bad
